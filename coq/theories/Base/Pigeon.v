(* Pigeonhole: distinct items each held by one of T holders, a holder holding at most one item => at most T items. *)
From RM Require Import Util.
From Coq Require Import FinFun.

Lemma pigeon_list (f : nat -> option Z) : forall (T : nat) (l : list Z),
  NoDup l -> (forall x, In x l -> exists t, (t < T)%nat /\ f t = Some x) -> (length l <= T)%nat.
Proof.
  induction T as [|T IH]; intros l Hnd Hh.
  - destruct l as [|x l]; [cbn; lia|]. destruct (Hh x (or_introl eq_refl)) as [t [Ht _]]. lia.
  - destruct (f T) as [y|] eqn:Ef.
    + destruct (in_dec Z.eq_dec y l) as [Hin|Hnin].
      * (* remove y: the other items are held by holders below T *)
        assert (Hl : (length (remove Z.eq_dec y l) <= T)%nat).
        { apply IH.
          - clear -Hnd. induction l as [|a l IHl]; cbn; [constructor|]. inversion Hnd; subst.
            destruct (Z.eq_dec y a); [now apply IHl|]. constructor; [|now apply IHl].
            intros Hin. apply in_remove in Hin. tauto.
          - intros x Hx. apply in_remove in Hx. destruct Hx as [Hx Hne].
            destruct (Hh x Hx) as [t [Ht Hft]]. exists t. split; [|assumption].
            destruct (Nat.eq_dec t T) as [->|]; [congruence|lia]. }
        assert (Hr : (length l = S (length (remove Z.eq_dec y l)))%nat).
        { clear -Hnd Hin. induction l as [|a l IHl]; [contradiction|]. inversion Hnd; subst. cbn.
          destruct (Z.eq_dec y a) as [->|Hne].
          - rewrite notin_remove by assumption. reflexivity.
          - cbn. f_equal. apply IHl; [assumption|]. destruct Hin; [congruence|assumption]. }
        lia.
      * assert ((length l <= T)%nat); [|lia]. apply IH; [assumption|].
        intros x Hx. destruct (Hh x Hx) as [t [Ht Hft]]. exists t. split; [|assumption].
        destruct (Nat.eq_dec t T) as [->|]; [|lia]. rewrite Ef in Hft. injection Hft as ->. contradiction.
    + assert ((length l <= T)%nat); [|lia]. apply IH; [assumption|].
      intros x Hx. destruct (Hh x Hx) as [t [Ht Hft]]. exists t. split; [|assumption].
      destruct (Nat.eq_dec t T) as [->|]; [congruence|lia].
Qed.

Definition zrange (a : Z) (n : nat) : list Z := map (fun i => a + Z.of_nat i) (seq 0 n).
Lemma zrange_in a n x : In x (zrange a n) <-> a <= x < a + Z.of_nat n.
Proof.
  unfold zrange. rewrite in_map_iff. split.
  - intros [i [<- Hi]]. apply in_seq in Hi. lia.
  - intros H. exists (Z.to_nat (x - a)). split; [lia|]. apply in_seq. lia.
Qed.
Lemma zrange_nodup a n : NoDup (zrange a n).
Proof.
  unfold zrange. apply Injective_map_NoDup; [|apply seq_NoDup]. intros i j H. lia.
Qed.

(* interval form *)
Lemma pigeon_interval (f : nat -> option Z) (T : nat) (a b : Z) :
  (forall x, a <= x < b -> exists t, (t < T)%nat /\ f t = Some x) -> b - a <= Z.of_nat T.
Proof.
  intros H. destruct (Z.le_gt_cases b a); [lia|].
  assert (Hl := pigeon_list f T (zrange a (Z.to_nat (b - a))) (zrange_nodup _ _)).
  unfold zrange in Hl at 2. rewrite map_length, seq_length in Hl.
  assert ((Z.to_nat (b - a) <= T)%nat); [|lia]. apply Hl.
  intros x Hx. apply zrange_in in Hx. apply H. lia.
Qed.
