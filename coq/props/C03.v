(* C03 - Multi: each listener receives every accepted event exactly once, in order.
   Model: Chan/Multi.v (arc/atomic kind: one AtomicMove ring per listener + StreamsManagerBase), lock-step with the code. *)
From RM Require Import Util RingModel RingInv RingProps Chan Multi MultiProps.

(* Every listener's ring moves only by the ring machine's own events: for every schedule of producers (fan-out loops
   interleaved at every shared access), listeners, creations and drops, ring i of the channel is in a state the
   stand-alone ring reaches - so every ring theorem (C01, C02, C16) holds per listener. *)
Theorem C03_listener_ring_is_a_ring_run :
  forall N M mevs i, exists evs, rings (fold_left (mexec N M) mevs (minit M)) i = fold_left (execZ N) evs init.
Proof. exact listener_ring_is_a_ring_run. Qed.
Print Assumptions C03_listener_ring_is_a_ring_run.

(* per listener: what it was handed is, in order, a prefix of what its ring accepted: each event at most once, in the
   order its ring accepted them (hence each producer's events in that producer's send order), nothing invented *)
Theorem C03_listener_exactly_once_in_order :
  forall N M, 0 < N -> forall mevs i,
    let l := log (rings (fold_left (mexec N M) mevs (minit M)) i) in
    yielded_of l = firstn (length (yielded_of l)) (accepted_of l).
Proof. exact listener_exactly_once. Qed.
Print Assumptions C03_listener_exactly_once_in_order.

(* fan-out completeness - the heart of C03. From any state in which nobody is in an operation, and for EVERY interleaving of any
   number of producers, pollers and drivers in which no listener is created or removed: a send that reported success has
   published its event into the ring of every listener listed in used_streams before the first sentinel (all of them, when the
   array is full). With C17_live_list_consistent (the array lists exactly the live ids) and C03_listener_exactly_once_in_order:
   every live listener is handed every accepted event exactly once, each producer's events in send order. *)
From RM Require Import FanOut.
Theorem C03_every_accepted_event_reaches_every_listener :
  forall N M s0 mevs,
    (forall t, mthr s0 t = MIdle) -> (forall t i, thr (rings s0 i) t = Idle) -> (forall t v, ~ In (t, MSendOk v) (mlog s0)) ->
    Forall (fun e => steady_ev e = true) mevs ->
    let s := fold_left (mexec N M) mevs s0 in
    forall t v, In (t, MSendOk v) (mlog s) ->
    exists j, (j <= M)%nat /\ (j = M \/ usedarr (mx s0) j = MAXID) /\
      forall j', (j' < j)%nat -> usedarr (mx s0) j' <> MAXID /\ In v (accepted_of (log (rings s (Z.to_nat (usedarr (mx s0) j'))))).
Proof.
  intros N M s0 mevs Hi Hr Hl Hs. apply (fanout_complete N M (usedarr (mx s0)) s0 mevs); [|exact Hs].
  apply fo_base; auto.
Qed.
Print Assumptions C03_every_accepted_event_reaches_every_listener.

(* non-vacuity: two producers and two driven listeners, interleaved inside the fan-out loops *)
Example C03_nonvacuous :
  let progs := [[MoCreate; MoCreate; MoSend 1; MoSend 2]; [MoSend 10]; [MoDrive 0]; [MoDrive 1]] in
  let s := fst (mrun 8 idz idz 2 (minit 2) (fun t => nth t progs []) (repeat 0 6 ++ [1;1;0;0;1;2;3;0;1;1;3;2] ++ concat (repeat [0;1;2;3] 40))%nat) in
  (yielded_of (log (rings s 0%nat)), yielded_of (log (rings s 1%nat))) = ([1; 10; 2], [1; 10; 2]).
Proof. vm_compute. reflexivity. Qed.

(* ---- the arc / full-sync Multi channel (Chan/MultiFS.v, in lock-step with multi::channels::arc::full_sync): for every interleaving of
   producers, pollers, listener creations and removals, every listener's ring is a run of the full-sync ring machine; per listener:
   at most once, in order, nothing invented - and the ring invariant (mutual exclusion on the flag, capacity, buffer = log) ---- *)
From RM Require Import MultiFS MultiFSProps.
Theorem C03_arc_full_sync_listener_exactly_once :
  forall N M, 0 < N -> forall mevs i,
    let r := MFS.rings (fold_left (MultiFSProps.mexec N M) mevs (MFS.minit M)) i in
    yielded_of (flog r) = firstn (length (yielded_of (flog r))) (fpublished r).
Proof. intros N M HN. exact (MultiFSProps.listener_exactly_once N M HN). Qed.
Print Assumptions C03_arc_full_sync_listener_exactly_once.
Theorem C03_arc_full_sync_listener_ring_invariant :
  forall N M, 0 < N -> forall mevs i, FInv N (MFS.rings (fold_left (MultiFSProps.mexec N M) mevs (MFS.minit M)) i).
Proof. intros N M HN. exact (MultiFSProps.listener_ring_invariant N M HN). Qed.
Print Assumptions C03_arc_full_sync_listener_ring_invariant.

(* fan-out completeness on the arc / full-sync channel (Chan/FanOutFS.v, the same invariant as for arc / atomic): from any state in which
   nobody is in an operation and every listener's ring satisfies the full-sync ring invariant, for EVERY interleaving of any number of
   producers, pollers and drivers in which no listener is created or removed, a send that reported success has published its event
   into the ring of every listener listed in used_streams before the first sentinel. *)
From RM Require FanOutFS.
Theorem C03_arc_full_sync_every_accepted_event_reaches_every_listener :
  forall N M, 0 < N -> forall s0 mevs,
    (forall t, MFS.mthr s0 t = MIdle) -> (forall t i, fthr (MFS.rings s0 i) t = FIdle) -> (forall t v, ~ In (t, MSendOk v) (MFS.mlog s0)) ->
    (forall i, FInv N (MFS.rings s0 i)) ->
    Forall (fun e => FanOutFS.steady_ev e = true) mevs ->
    let s := fold_left (MultiFSProps.mexec N M) mevs s0 in
    forall t v, In (t, MSendOk v) (MFS.mlog s) ->
    exists j, (j <= M)%nat /\ (j = M \/ usedarr (MFS.mx s0) j = MAXID) /\
      forall j', (j' < j)%nat -> usedarr (MFS.mx s0) j' <> MAXID /\
                                 In v (fpublished (MFS.rings s (Z.to_nat (usedarr (MFS.mx s0) j')))).
Proof.
  intros N M HN s0 mevs Hi Hr Hl Hf Hs.
  apply (FanOutFS.fanout_complete_published N M (usedarr (MFS.mx s0)) HN s0 mevs); [|exact Hf|exact Hs].
  apply FanOutFS.fo_base; auto.
Qed.
Print Assumptions C03_arc_full_sync_every_accepted_event_reaches_every_listener.

(* non-vacuity: two producers and two driven listeners on the full-sync kind, interleaved inside the fan-out loops *)
Example C03_arc_full_sync_nonvacuous :
  let progs := [[MoCreate; MoCreate; MoSend 1; MoSend 2]; [MoSend 10]; [MoDrive 0]; [MoDrive 1]] in
  let s := fst (MFS.mrun 8 idz 2 (MFS.minit 2) (fun t => nth t progs []) (repeat 0 6 ++ [1;1;0;0;1;2;3;0;1;1;3;2] ++ concat (repeat [0;1;2;3] 40))%nat) in
  (yielded_of (flog (MFS.rings s 0%nat)), yielded_of (flog (MFS.rings s 1%nat))) = ([1; 10; 2], [10; 1; 2]).
Proof. vm_compute. reflexivity. Qed.
