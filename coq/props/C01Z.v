(* C01 / C02 / C13 inside the zero-copy Uni channels (Chan/ChanZ.v over Alloc/ZcUni.v, the machines in lock-step with
   ChannelUniZeroCopyAtomic / ChannelUniZeroCopyFullSync): for EVERY interleaving of sends, polls, driven streams, handle drops,
   cancel_all and length queries, whatever the wake decisions, the ring of slot ids and the free list of the payload pool are runs of
   the ring machine - so the ring theorems hold of them. *)
From RM Require Import RingModel RingInv RingProps FullSync Chan PoolRun ZeroCopy ZcUni ChanZ ChanZProps ChanZInst.
Import ZC.

Theorem C01_zero_copy_atomic_id_ring_is_a_ring_run :
  forall N M k wr cevs, exists evs, ub st (q _ (zc_run N M k wr cevs)) = fold_left (execZ N) evs init.
Proof. exact zc_atomic_id_ring_is_a_ring_run. Qed.
Print Assumptions C01_zero_copy_atomic_id_ring_is_a_ring_run.

Theorem C13_zero_copy_atomic_free_list_is_a_ring_run :
  forall N M k wr cevs, exists evs, ua st (q _ (zc_run N M k wr cevs)) = fold_left (execZ N) evs init.
Proof. exact zc_atomic_free_list_is_a_ring_run. Qed.
Print Assumptions C13_zero_copy_atomic_free_list_is_a_ring_run.

(* slot ids are handed to consumers exactly once, in the order they were published *)
Theorem C01_zero_copy_atomic_ids_exactly_once_in_order :
  forall N, 0 < N -> forall M k wr cevs,
    let l := log (ub st (q _ (zc_run N M k wr cevs))) in yielded_of l = firstn (length (yielded_of l)) (accepted_of l).
Proof. exact zc_atomic_ids_exactly_once_in_order. Qed.
Print Assumptions C01_zero_copy_atomic_ids_exactly_once_in_order.

(* a pool slot is handed out by an allocation only after a publication of that very id into the free list, in order *)
Theorem C13_zero_copy_atomic_pool_slots_exactly_once_in_order :
  forall N, 0 < N -> forall M k wr cevs,
    let l := log (ua st (q _ (zc_run N M k wr cevs))) in yielded_of l = firstn (length (yielded_of l)) (accepted_of l).
Proof. exact zc_atomic_pool_slots_exactly_once_in_order. Qed.
Print Assumptions C13_zero_copy_atomic_pool_slots_exactly_once_in_order.

(* the ring invariant (capacity, exclusive slot access, ...) holds of both components *)
Theorem C02_zero_copy_atomic_components_invariant :
  forall N, 0 < N -> forall M k wr cevs,
    Inv N (ub st (q _ (zc_run N M k wr cevs))) /\ Inv N (ua st (q _ (zc_run N M k wr cevs))).
Proof. exact zc_atomic_components_invariant. Qed.
Print Assumptions C02_zero_copy_atomic_components_invariant.

(* non-vacuity: one stream parks, a producer sends 7 and 8 through the zero-copy atomic channel, the stream is woken, yields both and
   gives both slots back: the pool has its 4 slots again *)
Example zc_atomic_nonvacuous :
  let progs := [[CoDrive 0]; [CoSend 7; CoSend 8]] in
  let s := fst (crun (ust st) (ustep st (stepZ 4) start ring_idle0 log true (fun _ => 0)) (ustart st start true) (uidle st) (ulog st)
                     (uobs st (obs 4 idz) true) (urelease st start) 1 1 (wake_rule_atomic 1) (cinit (ust st) 1 (zc_q0 4)) (cprogs_of progs)
                     (repeat 0 14 ++ repeat 1 40 ++ repeat 0 60)%nat) in
  (map snd (clog _ s), tail (ua _ (q _ s)) - head (ua _ (q _ s)), tail (ub _ (q _ s)) - head (ub _ (q _ s))) =
  ([CPending 0; CSendOk 7; CSendOk 8; CPending 0; CYield 0 7; CYield 0 8; CPending 0], 4, 0).
Proof. vm_compute. reflexivity. Qed.

(* ---- the crossbeam Uni channel (Chan/ChanXb.v, in lock-step with uni/channels/movable/crossbeam.rs; crossbeam's own queue is taken to
   be an atomic FIFO): for every interleaving of producers (send / send_with), pollers, drivers, length queries and cancellations, what
   was handed out is, in order, a prefix of what the channel accepted, the rest is what is still queued, and never more than N are queued ---- *)
From RM Require Import ChanXb ChanXbProps.
Theorem C01_crossbeam_exactly_once_in_order :
  forall N, 0 < N -> forall M k evs,
    let l := qlog (bq (fold_left (bxexec N M k) evs (bxinit k))) in yielded_of l = firstn (length (yielded_of l)) (accepted_of l).
Proof. exact xb_exactly_once_in_order. Qed.
Print Assumptions C01_crossbeam_exactly_once_in_order.

Theorem C02_crossbeam_nothing_lost_and_capacity :
  forall N, 0 < N -> forall M k evs,
    let x := bq (fold_left (bxexec N M k) evs (bxinit k)) in
    yielded_of (qlog x) ++ qitems x = accepted_of (qlog x) /\ Z.of_nat (length (qitems x)) <= N.
Proof. exact xb_queue_invariant. Qed.
Print Assumptions C02_crossbeam_nothing_lost_and_capacity.

Example crossbeam_nonvacuous :
  let s := fst (bxrun 2 1 1 (bxinit 1) (bprogs_of [[BoSend 1; BoSend 2; BoSend 3; BoSendWith 4]; [BoBase (CoDrive 0)]])
                      (repeat 0 20 ++ repeat 1 16 ++ repeat 0 8 ++ repeat 1 8)%nat) in
  (map snd (clog _ (bb s)), qitems (bq s)) =
  ([CSendOk 1; CSendOk 2; CSendFull 3; CSendFull 4; CYield 0 1; CYield 0 2; CPending 0; CPending 0], []).
Proof. vm_compute. reflexivity. Qed.

(* ---- the zero-copy ATOMIC Uni channel at the PAYLOAD level (Alloc/ZcPayload.v, on top of the slot conservation of Alloc/ZcConserve.v): for
   every interleaving of any number of producers, pollers, drivers, length queries and cancellations, the VALUES handed to consumers are,
   in order, a prefix of the VALUES accepted - every accepted event is delivered at most once, in acceptance order, carrying exactly the
   payload that was sent, nothing invented ... ---- *)
From RM Require Import ZcSoloA ZcConserve ZcPayload.
Theorem C01_zero_copy_atomic_payloads_exactly_once_in_order :
  forall N, 0 < N -> forall M k wr cevs, let s := ZC.q _ (zc_run N M k wr cevs) in
  yielded_of (ulog _ s) = firstn (length (yielded_of (ulog _ s))) (accepted_of (ulog _ s)).
Proof. exact zc_atomic_payload_exactly_once_in_order. Qed.
Print Assumptions C01_zero_copy_atomic_payloads_exactly_once_in_order.

(* ... and nothing is lost, in EVERY state: what was delivered, followed by the contents of the slots whose ids are still queued, is exactly
   what was accepted, in order (a slot in the id ring is never overwritten: the allocator cannot hand it out - conservation) *)
Theorem C01_zero_copy_atomic_payloads_all_accounted_for :
  forall N, 0 < N -> forall M k wr cevs, let s := ZC.q _ (zc_run N M k wr cevs) in
  yielded_of (ulog _ s) ++ map (upool _ s) (inring (ub _ s)) = accepted_of (ulog _ s).
Proof. exact zc_atomic_payload_accounted. Qed.
Print Assumptions C01_zero_copy_atomic_payloads_all_accounted_for.

(* ---- the same for the zero-copy FULL-SYNC Uni channel (Alloc/ZcPayloadFS.v): values delivered = prefix of values accepted; and in every
   state in which nobody stands between a ring step under B's flag and the return of its operation (in particular when B's flag is free)
   delivered ++ contents of the queued slots = accepted ---- *)
From RM Require Import ZcSolo ZcConserveFS ZcPayloadFS.
Theorem C01_zero_copy_full_sync_payloads_exactly_once_in_order :
  forall N, 0 < N -> forall M k wr cevs, let s := ZC.q _ (zcf_run N M k wr cevs) in
  yielded_of (ulog _ s) = firstn (length (yielded_of (ulog _ s))) (accepted_of (ulog _ s)).
Proof. exact zcf_payload_exactly_once_in_order. Qed.
Print Assumptions C01_zero_copy_full_sync_payloads_exactly_once_in_order.

Theorem C01_zero_copy_full_sync_payloads_all_accounted_for :
  forall N, 0 < N -> forall M k wr cevs, let s := ZC.q _ (zcf_run N M k wr cevs) in
  (forall t v id, uthr _ s t <> UEnqB v id) -> (forall t, uthr _ s t <> UDeqB) ->
  yielded_of (ulog _ s) ++ map (upool _ s) (finring (ub _ s)) = accepted_of (ulog _ s).
Proof. exact zcf_payload_accounted_quiet. Qed.
Print Assumptions C01_zero_copy_full_sync_payloads_all_accounted_for.
