(* C13 / C16 / C02 on the zero-copy ATOMIC Uni channel: SLOT CONSERVATION (Alloc/ZcConserve.v).  This file holds statements only. *)
From Coq Require Import Permutation.
From RM Require Import RingModel RingInv RingProps FullSync Chan ZeroCopy PoolRun ZcUni ChanZ ChanZProps ChanZInst ZcSoloA ZcConserve.
Import ZC.

(* in every state of every run of the channel (every interleaving of any number of producers, pollers, drivers, length queries,
   cancellations), the N slot ids 0..N-1 are each in exactly one place: in the pool's free list, in the ring of published ids, held by a
   consumer, or in transit inside a send / release in progress *)
Theorem C13_zero_copy_atomic_slots_conserved :
  forall N, 0 < N -> forall M k wr cevs, Conserve N (q _ (zc_run N M k wr cevs)).
Proof. exact zc_atomic_slots_conserved. Qed.
Print Assumptions C13_zero_copy_atomic_slots_conserved.

(* no leak, exact capacity: whenever no operation is in progress, free slots + pending events = N (so the channel accepts exactly
   BUFFER_SIZE events again after every fill / drain cycle, whatever was rejected or raced in between) *)
Theorem C16_zero_copy_atomic_no_leak_exact_capacity :
  forall N, 0 < N -> forall M k wr cevs, let s := q _ (zc_run N M k wr cevs) in
  (forall t, uthr _ s t = UIdle) ->
  (tail (ua _ s) - head (ua _ s)) + (tail (ub _ s) - head (ub _ s)) = N
  /\ calm (ua _ s) /\ calm (ub _ s) /\ Permutation (ids_upto N) (inring (ua _ s) ++ inring (ub _ s)).
Proof. exact zc_atomic_no_leak. Qed.
Print Assumptions C16_zero_copy_atomic_no_leak_exact_capacity.

(* the publication of an allocated slot id never finds the id ring full, the release of a slot never finds the free list full: the only
   'full' answer of the channel is "no free slot" - no publish on either ring ever reaches its reject path *)
Theorem C02_zero_copy_atomic_full_only_when_no_slot_is_free :
  forall N, 0 < N -> forall M k wr cevs, let s := q _ (zc_run N M k wr cevs) in
  (noP2 (ua _ s) /\ noP2 (ub _ s) /\ etail (ua _ s) - head (ua _ s) <= N /\ etail (ub _ s) - head (ub _ s) <= N) /\
  (forall t v id, uthr _ s t = UEnqB v id ->
     tail (ub _ s) - head (ub _ s) < N /\ ~ In id (inring (ub _ s)) /\
     (uthr _ (astep N s t) t = UEnqB v id \/
      exists len, uthr _ (astep N s t) t = UIdle /\ ulog _ (astep N s t) = ulog _ s ++ [(t, ROk v len)])) /\
  (forall t id, uheld _ s t = Some id \/ uthr _ s t = URel id -> tail (ua _ s) - head (ua _ s) < N /\ ~ In id (inring (ua _ s))).
Proof. exact zc_atomic_full_branches_unreachable. Qed.
Print Assumptions C02_zero_copy_atomic_full_only_when_no_slot_is_free.

(* exclusive ownership, for every state reachable by the component's own moves (handles may be held across operations): two threads never
   hold the same slot, and a held slot is in neither ring and in nobody's hands in transit *)
Theorem C13_zero_copy_atomic_exclusive_ownership :
  forall N, 0 < N -> forall s, zreach N s ->
  (forall t u id, uheld _ s t = Some id -> uheld _ s u = Some id -> t = u) /\
  (forall t id, uheld _ s t = Some id ->
     0 <= id < N /\ ~ In id (inring (ua _ s)) /\ ~ In id (inring (ub _ s)) /\ forall u, ~ In id (transl s u)).
Proof. exact exclusive_ownership. Qed.
Print Assumptions C13_zero_copy_atomic_exclusive_ownership.

(* non-vacuity: after two sends, a consume whose handle is still held, and a third send suspended after its allocation (N = 4):
   free list [3], id ring [1], thread 2 holds slot 0, thread 1 has slot 2 in transit *)
Example C13Z_nonvacuous : zreach 4 ex_s /\ Conserve 4 ex_s.
Proof. split; [exact ex_reachable|exact ex_Conserve]. Qed.

(* ---- the same for the zero-copy FULL-SYNC Uni channel (Alloc/ZcConserveFS.v): custody is read off the full-sync ring's steps (an id is in
   the ring from the publication step under the flag on, out of it from the consume step under the flag on; between those steps and the
   return of the operation it is counted with the ring resp. with the thread) ---- *)
From RM Require Import ZcSolo ZcConserveFS.
Theorem C13_zero_copy_full_sync_slots_conserved :
  forall N, 0 < N -> forall M k wr cevs, ConserveFS N (q _ (zcf_run N M k wr cevs)).
Proof. exact zcf_slots_conserved. Qed.
Print Assumptions C13_zero_copy_full_sync_slots_conserved.

Theorem C16_zero_copy_full_sync_no_leak_exact_capacity :
  forall N, 0 < N -> forall M k wr cevs, let s := q _ (zcf_run N M k wr cevs) in
  (forall t, uthr _ s t = UIdle) ->
  (ftail (ua _ s) - fhead (ua _ s)) + (ftail (ub _ s) - fhead (ub _ s)) = N
  /\ all_idle (ua _ s) /\ all_idle (ub _ s) /\ Permutation (ids_upto N) (finring (ua _ s) ++ finring (ub _ s)).
Proof. exact zcf_no_leak. Qed.
Print Assumptions C16_zero_copy_full_sync_no_leak_exact_capacity.

Theorem C13_zero_copy_full_sync_exclusive_ownership :
  forall N, 0 < N -> forall M k wr cevs, let s := q _ (zcf_run N M k wr cevs) in
  (forall t u id, uheld _ s t = Some id -> uheld _ s u = Some id -> t = u) /\
  (forall t id, uheld _ s t = Some id ->
     0 <= id < N /\ ~ In id (finring (ua _ s)) /\ ~ In id (finring (ub _ s)) /\ forall u, ~ In id (ftransl s u)) /\
  (forall t id, In id (ftransl s t) ->
     0 <= id < N /\ ~ In id (finring (ua _ s)) /\ ~ In id (finring (ub _ s)) /\ forall u, In id (ftransl s u) -> u = t).
Proof. exact zcf_exclusive_ownership. Qed.
Print Assumptions C13_zero_copy_full_sync_exclusive_ownership.
