(* C15 - Behaviour is independent of how many events flowed before (counter wrap-around). *)
From RM Require Import Util RingModel RingInv FullSync Ring32 FullSync32 RingRun.
From Coq Require Import Znumtheory.

(* Lock-free ring.  The machine with the code's wrapping u32 sequence counters, started with all counters at ANY origin O
   (i.e. after O events have flowed - including O >= 2^32), gives on every schedule and every operation sequence exactly the
   responses of the unbounded-integer machine started at 0: same accept / reject answers, same delivered values and order,
   same reported lengths (length queries modulo 2^32, as the code computes them).
   Hypotheses: N divides 2^32 (BUFFER_SIZE is a power of two), and at most T threads ever act, with N + T <= 2^31. *)
Theorem C15_ring_origin_independent :
  forall N (T : nat) O, 0 < N -> (N | W32) -> N + Z.of_nat T <= 2147483648 -> 0 <= O ->
  forall evs, Forall (fun e => (tid_of e < T)%nat) evs ->
    log (fold_left (exec32 N) evs (init_at (u32 O))) = log32 (log (fold_left (execZ N) evs init)).
Proof. intros N T O HN HD HB HO evs H. exact (ring32_same_responses N T O HN HD HB evs H). Qed.
Print Assumptions C15_ring_origin_independent.

(* ... and the whole state stays related (counters equal modulo 2^32, buffer contents equal up to the index shift) *)
Theorem C15_ring_refines :
  forall N (T : nat) O, 0 < N -> (N | W32) -> N + Z.of_nat T <= 2147483648 -> 0 <= O ->
  forall evs, Forall (fun e => (tid_of e < T)%nat) evs ->
    R N O (fold_left (exec32 N) evs (init_at (u32 O))) (fold_left (execZ N) evs init).
Proof. intros N T O HN HD HB HO evs H. exact (ring32_refines N T O HN HD HB evs H). Qed.
Print Assumptions C15_ring_refines.

(* Full-sync ring: the same, for any number of threads (lengths are computed under the flag and are exact) *)
Theorem C15_fullsync_refines :
  forall N O, 0 < N -> (N | W32) -> N < W32 ->
  forall evs, FR N O (fold_left (fexec N u32) evs (finit_at (u32 O))) (fold_left (fexecZ N) evs finit).
Proof. exact fs32_refines. Qed.
Print Assumptions C15_fullsync_refines.

(* non-vacuity: a run of the u32 machine whose counters really cross 2^32 (origin 2^32 - 2, N = 4), with a rejected send and
   an empty poll, answering exactly like the run from 0 *)
Example C15_wrap_nonvacuous :
  let progs := [[OpPub 1; OpPub 2; OpPub 3; OpPub 4; OpPub 5; OpLen]; [OpCons; OpCons; OpCons; OpCons; OpCons; OpCons]] in
  let sched := (repeat 0 30 ++ repeat 1 40 ++ repeat 0 6)%nat in
  let a := fst (run 4 u32 i32 (init_at (u32 4294967294)) (progs_of progs) sched) in
  let z := fst (run 4 idz idz init (progs_of progs) sched) in
  log a = log z /\ tail a = 2 /\ tail z = 4 /\ In (0%nat, RFull 5) (log a) /\ In (1%nat, REmpty) (log a).
Proof. vm_compute. repeat split; auto 20. Qed.
