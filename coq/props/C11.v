(* C11 - Executors account for every pipeline item exactly once; honour timeout and limit.
   Model: Exec/Exec.v (for_each_concurrent(limit) with in-order intake, per-item timeout, virtual time), in lock-step with a real
   Uni + StreamExecutor under tokio's paused clock on generated workloads. *)
From Coq Require Import List Arith ZArith Bool.
Import ListNotations.
From RM Require Import Exec ExecProps.
Open Scope Z_scope.

(* every item gets exactly one outcome: the three counters add up to the number of items - every item sequence, limit, timeout *)
Theorem C11_one_outcome_per_item :
  forall limit tau errdelay its, let ds := run limit tau errdelay its in
    (count_out OOk ds + count_out OFailed ds + count_out OTimedOut ds = length its)%nat.
Proof. exact one_outcome_per_item. Qed.
Print Assumptions C11_one_outcome_per_item.

(* the outcome of an item depends on that item alone (a failed or timed-out item does not stop or alter later ones): it is timed
   out iff a timeout is configured and it takes longer, failed iff it fails within the timeout, succeeded otherwise *)
Theorem C11_outcome_is_local :
  forall limit tau errdelay its,
    map iout (run limit tau errdelay its) =
    map (fun it => if (0 <? tau) && (tau <? dur it) then OTimedOut else if fails it then OFailed else OOk) its.
Proof.
  intros. rewrite outcome_is_local. apply map_ext. intros it. unfold eff. destruct ((0 <? tau) && (tau <? dur it)); [reflexivity|]. destruct (fails it); reflexivity.
Qed.
Print Assumptions C11_outcome_is_local.

(* at no intake are more than `limit` item futures in progress *)
Theorem C11_in_flight_never_exceeds_limit :
  forall limit tau errdelay, (1 <= limit)%nat -> forall its,
  Forall (fun k => (k <= limit)%nat)
         ((fix go st its := match its with [] => [] | it :: r => let st' := fst (intake limit tau errdelay st it) in length (snd st') :: go st' r end) (0, []) its).
Proof. intros limit tau errdelay H its. apply in_flight_never_exceeds_limit; [exact H|cbn; apply Nat.le_0_l]. Qed.
Print Assumptions C11_in_flight_never_exceeds_limit.

Example C11_nonvacuous :
  report 2 100 0 [{| dur := 200; fails := false |}; {| dur := 50; fails := false |}; {| dur := 30; fails := true |}; {| dur := 20; fails := false |}] 5
  = [2; 1; 1; 2; 4; 100].
Proof. vm_compute. reflexivity. Qed.
