(* C12 - Executor life cycle: close callback exactly once, after the last item.
   Model: the status cell of Exec/Exec.v (register_execution_start = store Running ; report_scheduled_to_finish = CAS Running ->
   ScheduledToFinish ; register_execution_finish = CAS Running -> StreamEnded else CAS ScheduledToFinish -> ProgrammaticallyEnded ;
   then the close callback reads the cell). *)
From Coq Require Import List Arith ZArith Bool.
Import ListNotations.
From RM Require Import Exec ExecProps.

(* what the close callback finds, for ANY number of report_scheduled_to_finish() calls before the start (a), while running (b)
   and after the stream ended but before the callback (c): always an ended state, 'programmatically ended' exactly when it was
   scheduled while running *)
Theorem C12_status_found_by_the_close_callback :
  forall a b c,
  srun (repeat SSched a ++ [SStart] ++ repeat SSched b ++ [SFinish] ++ repeat SSched c) =
  match b with O => StreamEnded | _ => ProgrammaticallyEnded end.
Proof. exact status_at_callback. Qed.
Print Assumptions C12_status_found_by_the_close_callback.

Theorem C12_always_ended : forall a b c, ended (srun (repeat SSched a ++ [SStart] ++ repeat SSched b ++ [SFinish] ++ repeat SSched c)) = true.
Proof. intros. rewrite status_at_callback. destruct b; reflexivity. Qed.
Print Assumptions C12_always_ended.

(* before the repair (fix: commit in /repo, finding F9) report_scheduled_to_finish was a plain store: a call in the last window left
   the cell in ScheduledToFinish; with the store semantics the statement above is false: *)
Example C12_plain_store_was_refuted :
  let sstep' s o := match o with SSched => ScheduledToFinish | _ => sstep s o end in
  ended (fold_left sstep' [SStart; SFinish; SSched] NotStarted) = false.
Proof. reflexivity. Qed.

(* a Uni's close callback (latched over its MAX_STREAMS executors) runs exactly once, when the last executor has finished *)
Theorem C12_uni_close_callback_once_after_all_executors :
  forall M, (0 < M)%nat -> latch_run M M = repeat false (M - 1) ++ [true].
Proof. exact latch_fires_exactly_once_at_the_last. Qed.
Print Assumptions C12_uni_close_callback_once_after_all_executors.

(* ---- Multi executors (model: Exec/MExec.v, compared with real Multis field by field) ---- *)
From RM Require Import MExec.

(* the log channel's old / new pair of executors: with sequential_transition, for every workload, split point and concurrency limit,
   no new event starts before every old event has been fully processed *)
Theorem C12_sequential_transition_orders_old_before_new :
  forall limit n_old durs d_old d_new,
    In d_old (old_run limit n_old durs) -> In d_new (new_run true limit n_old durs) -> (iend d_old <= istart d_new)%Z.
Proof. exact sequential_transition_orders_old_before_new. Qed.
Print Assumptions C12_sequential_transition_orders_old_before_new.

(* the split neither drops nor duplicates an event *)
Theorem C12_old_new_split_is_exact :
  forall sequential limit n_old durs, (length (old_run limit n_old durs) + length (new_run sequential limit n_old durs) = length durs)%nat.
Proof. exact old_new_split_is_exact. Qed.
Print Assumptions C12_old_new_split_is_exact.
