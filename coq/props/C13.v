(* C13 - Pool allocator: a slot has at most one owner; exhaustion and reuse are exact.
   The pool is a ring of slot ids used as a free list (alloc = consume, dealloc = publish, `new()` publishes 0..N-1), so the
   statements are about the two ring machines (theories/Alloc/PoolRun.v is the program-driven runner the correspondence uses). *)
From RM Require Import RingModel RingInv RingProps RingCov FullSync.
Require Import Lia.

(* the free list never duplicates an id: every hand-out of id v is matched by a distinct earlier publication of v (the one of
   `new()` or a deallocation), for every schedule and any number of threads ... *)
Theorem C13_handout_needs_publication :
  forall N, 0 < N -> forall evs v,
    let l := log (fold_left (execZ N) evs init) in
    (count_occ Z.eq_dec (yielded_of l) v <= count_occ Z.eq_dec (accepted_of l) v)%nat.
Proof. exact handed_out_le_published. Qed.
Print Assumptions C13_handout_needs_publication.

(* ... and while every published copy of v is handed out (v is owned, or on its way back), the next allocation does not
   return v.  With clients that only deallocate what they own (so that v is published once per ownership) this is exclusive
   ownership between an allocation and the matching deallocation. *)
Theorem C13_owned_id_not_handed_out_again :
  forall N, 0 < N -> forall evs v,
    let s := fold_left (execZ N) evs init in
    head s < tail s ->
    count_occ Z.eq_dec (delivered s) v = count_occ Z.eq_dec (published s) v ->
    nthz (published s) (head s) <> v.
Proof. exact next_is_not_exhausted_value. Qed.
Print Assumptions C13_owned_id_not_handed_out_again.

(* at most POOL_SIZE ids are in the free list; an allocation is served from the list in FIFO order (reuse) *)
Theorem C13_bound :
  forall N, 0 < N -> forall evs, let s := fold_left (execZ N) evs init in 0 <= tail s - head s <= N.
Proof. exact capacity. Qed.
Print Assumptions C13_bound.

(* allocation fails only if the free list was empty at the decisive load - unless another allocator holds a lower,
   not yet receded reservation (lock-free free list; finding F5, same class as C02) ... *)
Theorem C13_fail_justified_partial :
  forall N, 0 < N -> forall evs t slot,
    let s := fold_left (execZ N) evs init in
    thr s t = C1 slot -> tail s - slot <= 0 ->
    (forall u x, u <> t -> cslot (thr s u) = Some x -> slot < x) ->
    head s = tail s.
Proof. exact empty_answer_justified. Qed.
Print Assumptions C13_fail_justified_partial.

(* ... and exactly if it was empty, on the full-sync free list *)
Theorem C13_fail_exact_fullsync :
  forall N s t,
    fthr s t = FCL -> flock s = false ->
    (fthr (fstepZ N s t) t = FCU None <-> ftail s - fhead s <= 0).
Proof. exact fs_empty_exact. Qed.
Print Assumptions C13_fail_exact_fullsync.

(* id <-> reference conversion (`ref_from_id i = pool + size * (i mod N)`, `id_from_ref r = (r - pool) / size`) is a
   bijection between 0..N-1 and the slot addresses of the pool *)
Definition ref_from_id (pool size N i : Z) : Z := pool + size * (i mod N).
Definition id_from_ref (pool size r : Z) : Z := (r - pool) / size.
Theorem C13_id_ref_bijection :
  forall pool size N i j, 0 < size -> 0 < N -> 0 <= i < N -> 0 <= j < N ->
    id_from_ref pool size (ref_from_id pool size N i) = i /\
    (ref_from_id pool size N i = ref_from_id pool size N j -> i = j) /\
    pool <= ref_from_id pool size N i < pool + size * N.
Proof.
  intros pool size N i j Hs HN Hi Hj. unfold id_from_ref, ref_from_id. rewrite !Z.mod_small by lia.
  repeat split.
  - replace (pool + size * i - pool) with (i * size) by lia. apply Z.div_mul. lia.
  - nia.
  - nia.
  - nia.
Qed.
Print Assumptions C13_id_ref_bijection.
