(* C17 - Listener churn during sends never makes another listener miss or repeat events.
   Model: Chan/Multi.v with create_stream_id / report_stream_dropped / sync_vacant_and_used_streams at one shared access per
   step (the K.. pcs), interleaved with the fan-out loops; lock-step with the code on arc/atomic. *)
From RM Require Import Util RingModel RingInv RingProps Chan Multi MultiProps.

(* what does hold under churn, for every schedule: each listener's ring still only moves by the ring machine's own events, so
   per PUBLICATION into a listener's ring the event is yielded at most once, in order, nothing invented *)
Theorem C17_rings_unaffected_by_churn :
  forall N M mevs i, exists evs, rings (fold_left (mexec N M) mevs (minit M)) i = fold_left (execZ N) evs init.
Proof. exact listener_ring_is_a_ring_run. Qed.
Print Assumptions C17_rings_unaffected_by_churn.

Definition pre (M k : nat) : mst := Nat.iter k (fun s => mstep 8 idz idz M (mstart M s 0%nat MoCreate) 0%nat) (minit M).
Definition runw (M k : nat) (progs : list (list mop)) (sched : list nat) : mst := fst (mrun 8 idz idz M (pre M k) (fun t => nth t progs []) sched).
Definition got (s : mst) (i : nat) : list Z := accepted_of (log (rings s i)).

(* The property itself is FALSE of the faithful model (finding F11): used_streams is rewritten in place, cell by cell, while a
   fan-out loop walks it by position.
   Witness 1 (a listener that exists throughout MISSES an accepted event): listeners 0,1,2; the sender has served listener 0
   and read entry 1; listener 0 is removed ([0,1,2] -> [1,2,MAX]); the sender serves listener 1 and then reads entry 2 = MAX. *)
Theorem C17_refuted_miss :
  let s := runw 4 3 [[MoSend 7]; [MoDropS 0]] (repeat 0 10 ++ repeat 1 20 ++ repeat 0 30)%nat in
  In (0%nat, MSendOk 7) (mlog s) /\ alive s 2%nat = true /\ got s 1%nat = [7] /\ got s 2%nat = [] /\ mthr s 0%nat = MIdle /\ mthr s 1%nat = MIdle.
Proof. vm_compute. intuition. Qed.
Print Assumptions C17_refuted_miss.

(* Witness 2 (a listener that exists throughout gets one accepted event TWICE): listener 1 is removed ([0,1,2] -> [0,2,MAX]);
   the sender reads entry 1 after it was rewritten (2) and entry 2 before it was (still 2). *)
Theorem C17_refuted_repeat :
  let s := runw 4 3 [[MoSend 7]; [MoDropS 1]] (repeat 0 9 ++ repeat 1 10 ++ repeat 0 30 ++ repeat 1 10)%nat in
  In (0%nat, MSendOk 7) (mlog s) /\ alive s 2%nat = true /\ got s 0%nat = [7] /\ got s 2%nat = [7; 7] /\ mthr s 0%nat = MIdle /\ mthr s 1%nat = MIdle.
Proof. vm_compute. intuition. Qed.
Print Assumptions C17_refuted_repeat.

(* What does hold (the positive core, for ANY number of concurrent creators / removers racing with sends and polls, every
   schedule): whenever no creation / removal is between its change of the vacant queue and the end of its rebuild of
   used_streams, the array holds exactly the live ids (the ids not in the vacant queue), ascending, then the sentinel - so a
   fan-out that runs while no rebuild is in progress serves exactly the live listeners. streams_lock is a mutual exclusion. *)
From RM Require Import Churn.
Theorem C17_live_list_consistent :
  forall N M, (0 < M)%nat -> forall mevs, Forall (fun e => stepped_ev e = true) mevs ->
    let s := fold_left (mexec N M) mevs (minit M) in
    (forall t, pending (mthr s t) = false /\ writing (mthr s t) = false) ->
    forall j, (j < M)%nat -> usedarr (mx s) j = nth j (used_list M (vacant s)) MAXID.
Proof. intros N M HM mevs H s Hq j Hj. exact (live_list_consistent N M HM mevs H Hq j Hj). Qed.
Print Assumptions C17_live_list_consistent.

(* non-vacuity: two listeners created concurrently by two threads (their steps interleaved), then the array is [0; 1; MAX; MAX] *)
Example C17_live_list_nonvacuous :
  let s := fst (mrun 8 idz idz 4 (minit 4) (fun t => nth t [[MoCreateS]; [MoCreateS]] []) (concat (repeat [0; 1; 1; 0]%nat 12))) in
  (map (usedarr (mx s)) [0; 1; 2; 3]%nat, vacant s, mthr s 0%nat, mthr s 1%nat) = ([0; 1; MAXID; MAXID], [2; 3]%nat, MIdle, MIdle).
Proof. vm_compute. reflexivity. Qed.
