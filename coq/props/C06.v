(* C06 - Graceful close returns only after every accepted event has been processed.
   Model: Exec/Exec.v - close() = wait until the channel is empty, cancel the streams, wait until the running-stream count is zero;
   for_each_concurrent polls (and, at its end, drops) the source stream only while fewer than `limit` item futures are in flight. *)
From Coq Require Import List Arith ZArith Bool.
Import ListNotations.
From RM Require Import Exec ExecProps.
Open Scope Z_scope.

(* sequential executors (concurrency limit 1 - also the non-future executors): for EVERY workload, timeout setting and instant at which
   close is called, every accepted event has been fully processed when close returns *)
Theorem C06_close_waits_when_sequential :
  forall tau errdelay its t_close, let ds := run 1 tau errdelay its in done_at ds (t_drop 1 ds t_close) = length its.
Proof. exact close_waits_for_everything_when_sequential. Qed.
Print Assumptions C06_close_waits_when_sequential.

(* with a concurrency limit above 1 the property is FALSE of the faithful model (finding F7): two events of 200 ms, limit 4, close
   called at once: the channel is empty and the stream is dropped at time 0 - close returns with 0 of 2 events processed *)
Theorem C06_refuted_with_concurrency :
  let its := [{| dur := 200; fails := false |}; {| dur := 200; fails := false |}] in
  let ds := run 4 0 0 its in
  t_drop 4 ds 0 = 0 /\ done_at ds (t_drop 4 ds 0) = 0%nat /\ length its = 2%nat.
Proof. vm_compute. auto. Qed.
Print Assumptions C06_refuted_with_concurrency.

(* no event is discarded by closing: every accepted event is processed in the end, whatever the limit *)
Theorem C06_nothing_discarded :
  forall limit tau errdelay its, length (run limit tau errdelay its) = length its.
Proof. intros. apply schedule_length. Qed.
Print Assumptions C06_nothing_discarded.

(* ---- Multi::close() over k listeners, each with its own executor (model: Exec/MExec.v, compared with the real Multi field by field) ---- *)
From RM Require Import MExec.

(* sequential executors: when Multi::close() returns, EVERY listener has fully processed EVERY accepted event - for every number of
   listeners, every workload (listener i is i+1 times slower) and every instant at which close is called *)
Theorem C06_multi_close_waits_for_every_listener :
  forall k durs t_close ds, In ds (mruns k 1 durs) -> done_at ds (m_return 1 (mruns k 1 durs) t_close) = length durs.
Proof. exact multi_close_waits_for_every_listener. Qed.
Print Assumptions C06_multi_close_waits_for_every_listener.

Theorem C06_multi_has_k_listeners_and_discards_nothing :
  forall k limit durs, length (mruns k limit durs) = k /\ forall ds, In ds (mruns k limit durs) -> length ds = length durs.
Proof. intros. split; [apply mruns_length|apply multi_nothing_discarded]. Qed.
Print Assumptions C06_multi_has_k_listeners_and_discards_nothing.

(* F7 at the Multi level: limit 4, two listeners, two events of 200 ms, close at once returns with nothing processed by anyone *)
Theorem C06_multi_refuted_with_concurrency :
  let dss := mruns 2 4 [200; 200] in
  m_return 4 dss 0 = 0 /\ map (fun ds => done_at ds (m_return 4 dss 0)) dss = [0%nat; 0%nat].
Proof. exact multi_close_refuted_with_concurrency. Qed.
Print Assumptions C06_multi_refuted_with_concurrency.

(* the size of F7, for every limit >= 1: when close() returns, FEWER THAN `limit` accepted events are still unprocessed - whatever the
   workload, the timeout setting and the instant of the call (limit 1: none, the first theorem above) *)
Theorem C06_close_leaves_fewer_than_limit :
  forall limit tau errdelay its t_close, (1 <= limit)%nat ->
    let ds := run limit tau errdelay its in
    (length its < done_at ds (t_drop limit ds t_close) + limit)%nat.
Proof. exact close_leaves_fewer_than_limit. Qed.
Print Assumptions C06_close_leaves_fewer_than_limit.

(* ... and at the Multi level: every listener is left with fewer than `limit` unprocessed events when Multi::close returns *)
Theorem C06_multi_close_leaves_fewer_than_limit :
  forall k limit durs t_close, (1 <= limit)%nat ->
    forall ds, In ds (mruns k limit durs) -> (length durs < done_at ds (m_return limit (mruns k limit durs) t_close) + limit)%nat.
Proof. exact multi_close_leaves_fewer_than_limit. Qed.
Print Assumptions C06_multi_close_leaves_fewer_than_limit.
