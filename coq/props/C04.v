(* C04 - No lost wake-up: an accepted event reaches a driven stream without further sends. *)
From RM Require Import RingModel FullSync Chan ChanProps UniInst UniWake.

(* Movable full-sync Uni channel - the machine the correspondence check runs against the implementation - for every
   schedule, any number of producers (send / send_with), length queries and cancel_all calls on any number of threads,
   every MAX_STREAMS = M, every number 0 < k <= M of streams, each driven by its own task:
   the state "all producers have returned, events are pending, every stream is parked and un-notified" is unreachable. *)
Theorem C04_uni_fullsync_no_lost_wakeup :
  forall N M k, (0 < k)%nat -> (k <= M)%nat ->
  forall cevs, Forall (wf_ev k) cevs -> ~ lost k (uf_run N M k cevs).
Proof. exact no_lost_wakeup. Qed.
Print Assumptions C04_uni_fullsync_no_lost_wakeup.

(* non-vacuity: a well-formed run of that machine in which a stream parks on the empty channel, a producer publishes and
   wakes it, and the event is yielded *)
Example C04_fullsync_nonvacuous :
  let progs := [[CoDrive 0]; [CoSend 7]] in
  let sched := (repeat 0 16 ++ repeat 1 6 ++ repeat 0 16)%nat in
  let s := fst (crun fsst (fstepZ 4) fstart fs_idle flog fobs 1 1 (wake_rule_fullsync 1) (cinit fsst 1 finit) (cprogs_of progs) sched) in
  cyields (clog _ s) = [7] /\ csendok (clog _ s) = [7].
Proof. vm_compute. split; reflexivity. Qed.

(* Movable atomic Uni channel (lock-free ring): the property FAILS.  Finding F1: MAX_STREAMS = 1, one stream, three
   overlapping sends - the wake decision uses the length sampled at reservation time (1, 2, 3) while publications are
   serialised; the third send wakes nobody: all three sends answered Ok, two events yielded, one pending, stream parked
   and not notified, every producer idle. *)
Definition ua_crun N M k progs sched :=
  fst (crun st (stepZ N) start ring_idle log (obs N idz) M k (wake_rule_atomic M) (cinit st k init) (cprogs_of progs) sched).

Theorem C04_uni_atomic_refuted_overlapping_sends :
  exists progs sched,
    let s := ua_crun 8 1 1 progs sched in
    csendok (clog _ s) = [100; 101; 102] /\ cyields (clog _ s) = [100; 101] /\
    tail (q _ s) - head (q _ s) = 1 /\
    cthr _ s 0%nat = XParked 0 /\ notified (m _ s) 0%nat = false /\
    map (cthr _ s) [1; 2; 3]%nat = [XIdle; XIdle; XIdle].
Proof.
  exists [[CoDrive 0]; [CoSend 100]; [CoSend 101]; [CoSend 102]].
  exists [0;0;0;0;0;0;0;0;0;  1;1; 2;2; 3;3;  1;1;1;1;  0;0;0;0;0;0; 0;0;0;0;0;0;  2;2;2;2; 0;0;0;0;0;0; 0;0;0;0;0;0; 3;3;3;3;3;3; 0;0;0]%nat.
  vm_compute. repeat split; reflexivity.
Qed.
Print Assumptions C04_uni_atomic_refuted_overlapping_sends.

(* Finding F13: MAX_STREAMS = 2, two streams, ONE producer, ONE send: stream 1 is mid-poll and has overshot on the empty
   ring; the send wakes stream 0, which takes the slot above the published one and sees "empty" (F5's mechanism); both
   park un-notified with the event still in the ring. *)
Theorem C04_uni_atomic_refuted_two_streams :
  exists progs sched,
    let s := ua_crun 8 2 2 progs sched in
    csendok (clog _ s) = [7] /\ cyields (clog _ s) = [] /\
    tail (q _ s) - head (q _ s) = 1 /\
    map (cthr _ s) [0; 1; 2]%nat = [XParked 0; XParked 1; XIdle] /\
    map (notified (m _ s)) [0; 1]%nat = [false; false].
Proof.
  exists [[CoDrive 0]; [CoDrive 1]; [CoSend 7]].
  exists [1;1;1;1;1;1;1;1;1; 1;1;1;  0;0;0;0;0;0;0;0;0; 0;0;0;0;0;0;  2;2;2;2;2;2;  0;0;0;0;0;0;  1;1;1]%nat.
  vm_compute. repeat split; reflexivity.
Qed.
Print Assumptions C04_uni_atomic_refuted_two_streams.

(* The same root cause needs neither overlapping sends nor two streams: MAX_STREAMS = 1, one stream, ONE producer sending
   three events one after the other - the third samples the length (2) at its reservation, the stream then drains both
   earlier events and parks, the third is published with len_after = 3 > MAX_STREAMS + 1 and wakes nobody. *)
Theorem C04_uni_atomic_refuted_single_producer :
  exists progs sched,
    let s := ua_crun 8 1 1 progs sched in
    csendok (clog _ s) = [1; 2; 3] /\ cyields (clog _ s) = [1; 2] /\
    tail (q _ s) - head (q _ s) = 1 /\
    map (cthr _ s) [0; 1]%nat = [XParked 0; XIdle] /\ notified (m _ s) 0%nat = false.
Proof.
  exists [[CoDrive 0]; [CoSend 1; CoSend 2; CoSend 3]].
  exists (repeat 1 8 ++ repeat 1 8 ++ [1;1] ++ repeat 0 40 ++ repeat 1 4 ++ repeat 0 6)%nat.
  vm_compute. repeat split; reflexivity.
Qed.
Print Assumptions C04_uni_atomic_refuted_single_producer.

(* ---- the other entry points (Chan/ChanX.v: reserve_slot + try_send_reserved, send_with_async) ----
   Finding F2 (repaired in /repo by commit 7195018): try_send_reserved decided `wake_stream(len_after % MAX_STREAMS)`.
   With MAX_STREAMS = 2 and one stream, a completely sequential history - the stream parks, then reserve + send-reserved -
   wakes stream 1, which does not exist: the send answered true, the event is in the ring, the only stream is parked and
   not notified, the producer is idle.  With the repaired rule (`len_after - 1`, the rule of `send`) the same history
   delivers the event. *)
From RM Require Import Reserve ChanX.
Definition ux_crun wr N M k progs sched :=
  fst (xrun N idz idz M k (wake_rule_atomic M) (wr M) (wake_async_code M) (xinit k (reinit_at 0)) (xprogs_of progs) sched).
Definition f2_progs := [[XoBase (CoDrive 0)]; [XoReserve 0 100; XoSendRes 0]].
Definition f2_sched := (repeat 0 14 ++ repeat 1 12 ++ repeat 0 20)%nat.

Theorem C04_reserved_send_old_wake_rule_refuted :
  let s := ux_crun wake_res_f2 4 2 1 f2_progs f2_sched in
  map snd (xlog s) = [XSlot 0; XSent 0] /\ cyields (clog _ (xb s)) = [] /\
  tail (ring (q _ (xb s))) - head (ring (q _ (xb s))) = 1 /\
  cthr _ (xb s) 0%nat = XParked 0 /\ notified (m _ (xb s)) 0%nat = false /\ xthr s 1%nat = XN.
Proof. vm_compute. repeat split; reflexivity. Qed.
Print Assumptions C04_reserved_send_old_wake_rule_refuted.

Theorem C04_reserved_send_repaired_rule_delivers_that_history :
  let s := ux_crun wake_res_code 4 2 1 f2_progs f2_sched in
  map snd (xlog s) = [XSlot 0; XSent 0] /\ cyields (clog _ (xb s)) = [100] /\
  tail (ring (q _ (xb s))) - head (ring (q _ (xb s))) = 0.
Proof. vm_compute. repeat split; reflexivity. Qed.
Print Assumptions C04_reserved_send_repaired_rule_delivers_that_history.

(* the repaired decision of try_send_reserved is the decision of the full-sync `send` (the one the no-lost-wake-up theorem is about) *)
Theorem C04_reserved_send_rule_is_the_send_rule : forall M len, wake_res_code M len = wake_rule_fullsync M len.
Proof. reflexivity. Qed.
Print Assumptions C04_reserved_send_rule_is_the_send_rule.
