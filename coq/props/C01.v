(* C01 - Uni: every accepted event is delivered exactly once, rejected ones never.
   This file holds ONLY the property theorems (closed by `exact`), their non-vacuity examples and the
   `Print Assumptions` lines.  The lemmas live in theories/. *)
From RM Require Import RingModel RingInv RingProps RingRun FullSync Chan ChanProps UniInst.

(* Lock-free ring (AtomicMove), every schedule, every operation sequence, any number of threads, any N > 0:
   the values handed to consumers are, in order, exactly a prefix of the values accepted from producers
   (each accepted value at most once, nothing invented, FIFO in publication order). *)
Theorem C01_ring_exactly_once_in_order :
  forall N, 0 < N -> forall evs,
    let l := log (fold_left (execZ N) evs init) in
    yielded_of l = firstn (length (yielded_of l)) (accepted_of l).
Proof. exact yielded_prefix. Qed.
Print Assumptions C01_ring_exactly_once_in_order.

(* what is still pending is exactly accepted minus yielded: nothing is lost *)
Theorem C01_ring_nothing_lost :
  forall N, 0 < N -> forall evs,
    let s := fold_left (execZ N) evs init in
    tail s - head s = Z.of_nat (length (accepted_of (log s))) - Z.of_nat (length (yielded_of (log s))).
Proof. exact pending_is_accepted_minus_yielded. Qed.
Print Assumptions C01_ring_nothing_lost.

(* a response belongs to its call: a rejected send hands back exactly the payload it was given, an accepted
   one accepted exactly that payload; holds from every state *)
Theorem C01_ring_response_matches_call :
  forall N s t o,
    op_of_pc (thr s t) = Some o ->
    (op_of_pc (thr (stepZ N s t) t) = Some o /\ log (stepZ N s t) = log s) \/
    (thr (stepZ N s t) t = Idle /\ exists r, log (stepZ N s t) = log s ++ [(t, r)] /\ matches o r).
Proof. exact response_matches_call. Qed.
Print Assumptions C01_ring_response_matches_call.

(* the plain slot accesses of the code never overlap: two validated producers, or a validated producer and a
   validated consumer, never address the same slot *)
Theorem C01_ring_slot_writers_exclusive :
  forall N, 0 < N -> forall evs t u x y,
    let s := fold_left (execZ N) evs init in
    pvalid (thr s t) = Some x -> pvalid (thr s u) = Some y -> t <> u -> x mod N <> y mod N.
Proof. exact writers_exclusive. Qed.
Print Assumptions C01_ring_slot_writers_exclusive.

Theorem C01_ring_slot_writer_reader_exclusive :
  forall N, 0 < N -> forall evs t u x y,
    let s := fold_left (execZ N) evs init in
    pvalid (thr s t) = Some x -> cvalid (thr s u) = Some y -> x mod N <> y mod N.
Proof. exact writer_reader_exclusive. Qed.
Print Assumptions C01_ring_slot_writer_reader_exclusive.

(* non-vacuity: a run (N = 2) in which a send is in progress on the second slot, the other producer overshoots and is
   rejected twice, two consumers race, one overshoots on the drained ring, and everything accepted is delivered *)
Example C01_ring_nonvacuous :
  let progs := [[OpPub 10; OpPub 11; OpPub 12]; [OpPub 20]; [OpCons; OpCons; OpCons]; [OpCons; OpCons]] in
  let sched := [0;0;0;0; 1;1; 0;0;0;0; 0;0; 1; 1; 0; 0; 2;2;2;2; 3;3;3;3; 2;3;2;3;2;3;2;3;2;3;2;3; 0;0;0;0;0;0]%nat in
  let '(s, _) := run 2 idz idz init (progs_of progs) sched in
  accepted_of (log s) = [10; 20] /\ yielded_of (log s) = [10; 20] /\ rejected_of (log s) = [11; 12]
  /\ In (3%nat, REmpty) (log s).
Proof. vm_compute. repeat split; auto 10. Qed.

(* ---------------------------------------------------------------------------------------------------------------
   Full-sync ring (FullSyncMove): the same statement, at the linearisation points (the flag CAS that succeeds) *)
Theorem C01_fs_exactly_once_in_order :
  forall N, 0 < N -> forall evs,
    let s := fold_left (fexecZ N) evs finit in
    yielded_of (flog s) = firstn (length (yielded_of (flog s))) (fpublished s) /\
    accepted_of (flog s) = firstn (length (accepted_of (flog s))) (fpublished s).
Proof. intros N HN evs. split; [exact (fs_yielded_prefix N HN evs)|exact (fs_accepted_prefix N HN evs)]. Qed.
Print Assumptions C01_fs_exactly_once_in_order.

(* ---------------------------------------------------------------------------------------------------------------
   Channel level, movable atomic Uni channel (ring + StreamsManagerBase), any MAX_STREAMS, any number k of streams,
   any mix of send / poll / executor-driven streams / cancel_all / length queries on any number of threads: *)
Theorem C01_uni_atomic_exactly_once :
  forall N, 0 < N -> forall M k cevs,
    let s := ua_run N M k cevs in
    cyields (clog st s) = firstn (length (cyields (clog st s))) (accepted_of (log (q st s))).
Proof. exact ua_exactly_once. Qed.
Print Assumptions C01_uni_atomic_exactly_once.

(* a send is answered Ok exactly for the events the queue accepted, and Full exactly for those it rejected
   (the response carries the payload of the call: C01_ring_response_matches_call) *)
Theorem C01_uni_atomic_responses :
  forall N M k cevs,
    let s := ua_run N M k cevs in
    (forall v, In v (accepted_of (log (q st s))) <-> (In v (csendok (clog st s)) \/ inflight st s v)) /\
    csendfull (clog st s) = rejected_of (log (q st s)).
Proof. intros N M k cevs. split; [intros v; exact (ua_ok_iff_accepted N M k cevs v)|exact (ua_full_iff_rejected N M k cevs)]. Qed.
Print Assumptions C01_uni_atomic_responses.

(* Channel level, movable full-sync Uni channel *)
Theorem C01_uni_fullsync_exactly_once :
  forall N, 0 < N -> forall M k cevs,
    let s := uf_run N M k cevs in
    cyields (clog fsst s) = firstn (length (cyields (clog fsst s))) (fpublished (q fsst s)).
Proof. exact uf_exactly_once. Qed.
Print Assumptions C01_uni_fullsync_exactly_once.

Theorem C01_uni_fullsync_responses :
  forall N M k cevs,
    let s := uf_run N M k cevs in
    (forall v, In v (accepted_of (flog (q fsst s))) <-> (In v (csendok (clog fsst s)) \/ inflight fsst s v)) /\
    csendfull (clog fsst s) = rejected_of (flog (q fsst s)).
Proof. intros N M k cevs. split; [intros v; exact (uf_ok_iff_accepted N M k cevs v)|exact (uf_full_iff_rejected N M k cevs)]. Qed.
Print Assumptions C01_uni_fullsync_responses.
