(* C04 / C07 on the zero-copy Uni channels (Chan/ChanZ.v over Alloc/ZcUni.v, the machines in lock-step with
   ChannelUniZeroCopyFullSync / ChannelUniZeroCopyAtomic).  This file holds statements only. *)
From RM Require Import RingModel RingInv RingProps FullSync Chan ChanProps PoolRun ZeroCopy ZcUni ZcSolo ChanZ ChanZProps ChanZInst UniWakeZ ChanZWake.
Import ZC.

(* the zero-copy full-sync channel, from its real initial state (free list filled with the N slot ids, id ring empty): whatever the
   interleaving, the number of producers / cancellers, MAX_STREAMS, the number 0 < k <= MAX_STREAMS of task-driven streams, there is no
   state in which every non-stream thread is idle, the id ring holds an event, no stream was cancelled, and every stream is parked
   with no notification on its way *)
Theorem C04_zero_copy_full_sync_no_lost_wakeup :
  forall (N : Z) (M k : nat), (0 < k)%nat -> (k <= M)%nat ->
  forall cevs, Forall (wf_ev k) cevs -> ~ lost k (zcf_run N M k (wake_rule_fullsync M) cevs).
Proof. exact zcf_no_lost_wakeup. Qed.
Print Assumptions C04_zero_copy_full_sync_no_lost_wakeup.

(* ... and a cancelled stream never stays parked without a notification *)
Theorem C07_zero_copy_full_sync_cancel_terminates :
  forall (N : Z) (M k : nat), (0 < k)%nat -> (k <= M)%nat ->
  forall cevs i, Forall (wf_ev k) cevs -> (i < k)%nat -> ~ stuck_cancelled k (zcf_run N M k (wake_rule_fullsync M) cevs) i.
Proof. exact zcf_cancel_terminates. Qed.
Print Assumptions C07_zero_copy_full_sync_cancel_terminates.

(* non-vacuity: a well-formed history that parks the stream, sends, and is woken *)
Example C04Z_nonvacuous :
  let cevs := [CStart 0 (CoDrive 0)] ++ repeat (CStep 0) 12 ++ [CStart 1 (CoSend 5)] ++ repeat (CStep 1) 12 ++ repeat (CStep 0) 12 in
  Forall (wf_ev 1) cevs /\ cyields (clog _ (zcf_run 4 1 1 (wake_rule_fullsync 1) cevs)) = [5].
Proof. split; [repeat (first [apply Forall_nil | apply Forall_cons; [cbn; auto|]])|vm_compute; reflexivity]. Qed.

(* The zero-copy ATOMIC channel shares the movable atomic channel's finding (known finding class C04.ring.overlapping_sends): three
   producers overlap on the id ring, the third publishes with len_after = 3 > MAX_STREAMS + 1 ... and wakes nobody; all three sends
   answered, two events were yielded, one is in the id ring, the only stream is parked and not notified, everybody is idle. *)
Definition zca_crun N M k progs sched :=
  fst (crun (ust st) (ustep st (stepZ N) start ring_idle0 log true (fun _ => 0)) (ustart st start true) (uidle st) (ulog st)
            (uobs st (obs N idz) true) (urelease st start) M k (wake_rule_atomic M) (cinit (ust st) k (zc_q0 N)) (cprogs_of progs) sched).
Theorem C04_zero_copy_atomic_refuted_overlapping_sends :
  exists progs sched,
    let s := zca_crun 4 1 1 progs sched in
    csendok (clog _ s) = [200; 300; 100] /\ cyields (clog _ s) = [300; 200] /\
    tail (ub _ (q _ s)) - head (ub _ (q _ s)) = 1 /\
    map (cthr _ s) [0; 1; 2; 3]%nat = [XIdle; XIdle; XIdle; XParked 0] /\ notified (m _ s) 0%nat = false.
Proof.
  exists [[CoSend 100]; [CoSend 200]; [CoSend 300]; [CoDrive 0]].
  exists (repeat 2 7 ++ repeat 1 10 ++ repeat 0 7 ++ repeat 3 10 ++ [2] ++ repeat 1 10 ++ repeat 3 8 ++ repeat 1 10 ++ [2;2] ++ repeat 3 20
          ++ concat (repeat [0;1;2;3] 14))%nat.
  vm_compute. repeat split; reflexivity.
Qed.
Print Assumptions C04_zero_copy_atomic_refuted_overlapping_sends.

(* The movable crossbeam Uni channel (Chan/ChanXb.v, in lock-step with uni/channels/movable/crossbeam.rs) takes its wake decision from
   the length sampled BEFORE the publication (`len_before <= 2`), so the sample can be stale: ONE producer sending four events one after
   the other - the fourth samples the length (3), the stream then drains the three earlier events and parks, the fourth is published and
   nobody is woken.  Known finding class C04.crossbeam.stale_length_sample (F17). *)
From RM Require Import ChanXb.
Theorem C04_uni_crossbeam_refuted_stale_length_sample :
  exists progs sched,
    let s := fst (bxrun 4 1 1 (bxinit 1) (bprogs_of progs) sched) in
    csendok (clog _ (bb s)) = [1; 2; 3; 4] /\ cyields (clog _ (bb s)) = [1; 2; 3] /\
    qitems (q _ (bb s)) = [4] /\
    cthr _ (bb s) 1%nat = XParked 0 /\ notified (m _ (bb s)) 0%nat = false /\ bthr s 0%nat = BN /\ cthr _ (bb s) 0%nat = XIdle.
Proof.
  exists [[BoSend 1; BoSend 2; BoSend 3; BoSend 4]; [BoBase (CoDrive 0)]].
  exists (repeat 0 19 ++ repeat 1 40 ++ repeat 0 6 ++ repeat 1 6 ++ concat (repeat [0; 1] 6))%nat.
  vm_compute. repeat split; reflexivity.
Qed.
Print Assumptions C04_uni_crossbeam_refuted_stale_length_sample.
