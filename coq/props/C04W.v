(* C04 / C07 - the same two theorems for EVERY executor behaviour the Waker contract allows (Chan/ChanW.v, Chan/UniWakeW.v):
   the task that drives a stream may be re-polled at any time, notified or not, and every poll may carry a different waker
   (`CRepoll t w` events, any number, anywhere, any w); only the waker of the latest poll is looked at by the parked task, a wake of
   an older waker goes nowhere.  Movable full-sync Uni channel, every schedule, any number of producers / cancel_all callers, every
   MAX_STREAMS, every 0 < k <= MAX_STREAMS streams.  The machine is the one the `waker_switch` suites run in lock-step with the code. *)
From RM Require Import RingModel FullSync Chan ChanW UniWakeW.
Import W.

Theorem C04_uni_fullsync_no_lost_wakeup_any_executor :
  forall N M k, (0 < k)%nat -> (k <= M)%nat ->
  forall cevs, Forall (wf_ev k) cevs -> ~ lost k (wuf_run N M k cevs).
Proof. exact no_lost_wakeup. Qed.
Print Assumptions C04_uni_fullsync_no_lost_wakeup_any_executor.

Theorem C07_uni_fullsync_cancel_terminates_any_executor :
  forall N M k, (0 < k)%nat -> (k <= M)%nat ->
  forall cevs i, Forall (wf_ev k) cevs -> (i < k)%nat -> ~ stuck_cancelled k (wuf_run N M k cevs) i.
Proof. exact cancel_terminates. Qed.
Print Assumptions C07_uni_fullsync_cancel_terminates_any_executor.

(* non-vacuity: the task parks with waker 0 registered, is re-polled with waker 1 (which replaces waker 0 in the slot and wakes itself),
   parks again on waker 1; the producer's wake then reaches waker 1 and the event is yielded.  The event list is well formed. *)
Definition c04w_evs : list cev :=
  [CStart 0 (CoDrive 0)] ++ repeat (CStep 0) 14 ++ [CRepoll 0 1] ++ repeat (CStep 0) 14 ++
  [CStart 1 (CoSend 7)] ++ repeat (CStep 1) 8 ++ repeat (CStep 0) 12.
Example C04W_nonvacuous :
  Forall (wf_ev 1) c04w_evs /\
  let s := wuf_run 4 1 1 c04w_evs in
  map snd (clog _ s) = [CPending 0; CPending 0; CPending 0; CPending 0; CSendOk 7; CYield 0 7; CPending 0] /\ regid (m _ s) 0%nat = Some 1%nat /\ cur (m _ s) 0%nat = 1%nat.
Proof. split; [unfold c04w_evs; cbn [app repeat]; repeat (apply Forall_cons; [cbn; auto|]); apply Forall_nil|vm_compute; repeat split; reflexivity]. Qed.

(* (The self-wake of step RS - "the producer might have just woken the old version of the waker" - is what makes the invariant go
   through when a waker is REPLACED: UniWakeW.step_reg, case RS.  The seeded change C04-b removed exactly that self-wake for replaced
   wakers; the `waker_switch` suites catch it on the implementation.) *)
