(* C10, "the same create/drop bookkeeping for Uni channels" (Chan/UniLife.v, in lock-step with the five Uni channel kinds on sequential
   histories of create-stream / drop-stream / send / poll / count).  This file holds statements only. *)
From RM Require Import Util UniLife.
From Coq Require Import Permutation.

(* for every history, of any length, any BUFFER_SIZE and MAX_STREAMS: the running-stream count is the number of live streams, at most
   MAX_STREAMS exist, no id is given to two live streams or is both vacant and in use, and whenever fewer than MAX_STREAMS streams are
   alive an id is vacant - so the next creation succeeds: creating and dropping any number of times never exhausts the ids.  (A creation
   attempted with MAX_STREAMS streams alive is refused - the code panics - and changes nothing: finding F18, repaired, was that it left
   the running count one too high.) *)
Theorem C10_uni_stream_bookkeeping :
  forall N M ops, let s := lrun N M ops in
    lcount s = Z.of_nat (length (live_ids s)) /\ (length (live_ids s) <= M)%nat /\ NoDup (live_ids s) /\ NoDup (lvacant s) /\
    (forall i, In i (live_ids s) -> ~ In i (lvacant s)) /\
    ((length (live_ids s) < M)%nat -> lvacant s <> []).
Proof. exact life_bookkeeping. Qed.
Print Assumptions C10_uni_stream_bookkeeping.

(* ... and, whatever streams come and go: what the streams yielded so far, followed by what is still pending, is exactly what was accepted,
   in order - every accepted event goes to one stream, at most once, nothing invented, nothing lost with a dropped stream *)
Theorem C10_uni_events_survive_stream_churn :
  forall N M ops, let s := lrun N M ops in yields_of (lanswers s) ++ lqueue s = sent_of (lanswers s).
Proof. exact life_events. Qed.
Print Assumptions C10_uni_events_survive_stream_churn.

(* non-vacuity: MAX_STREAMS = 2; two streams, a third creation refused (count stays 2), events sent, one stream dropped with an event
   pending, its id recycled by a new stream which receives that event *)
Example C10U_nonvacuous :
  map (fun a => a) (lanswers (lrun 4 2 [LoCreate; LoCreate; LoCreate; LoCount; LoSend 5; LoSend 6; LoPoll 0; LoDrop 0; LoCreate; LoPoll 3; LoCount]))
  = [LaCreated 0 1; LaCreated 1 2; LaExhausted 2; LaCount 2 0; LaSent 5; LaSent 6; LaYield 5 0; LaDropped 0 1; LaCreated 0 2; LaYield 6 0; LaCount 2 0].
Proof. vm_compute. reflexivity. Qed.
