(* C05 - Payloads are destroyed exactly once and their storage is never reused while held.
   (the teardown theorem instantiated with the struct definitions of /repo is in coq/gen/TeardownGen.v, regenerated every run) *)
From Coq Require Import List Arith Bool String.
From RM Require Import Teardown.
Import ListNotations.

(* a struct can be dropped with ANY number of events still buffered without touching freed memory exactly when no queue of
   payload handles is declared after an owned allocator *)
Theorem C05_teardown_safe_iff_declaration_order :
  forall fs, (forall pending, teardown fs pending = Safe) <-> well_ordered fs = true.
Proof. exact teardown_safe_iff. Qed.
Print Assumptions C05_teardown_safe_iff_declaration_order.

(* the shape the ogre_arc Multi channels had (allocator before the queues) is unsafe with one buffered event; the repaired one is safe *)
Example C05_teardown_order_matters :
  teardown [FOther; FAllocOwned; FQHandles; FOther] 1 = UseAfterFree /\ (forall n, teardown [FOther; FQHandles; FAllocOwned; FOther] n = Safe).
Proof. split; [reflexivity|]. apply teardown_safe_iff. reflexivity. Qed.

(* ---- ownership: the payload life-cycle machine (Alloc/Lifecycle.v, in lock-step with nine channel kinds and a destructor-counting
   payload). `owners s id` = queued copies of payload id + handles to it held by consumers. For EVERY history of send / receive /
   clone / drop (on any thread) / teardown, any number of listeners, both teardown disciplines: *)
From RM Require Import Lifecycle LifecycleProps.

Theorem C05_destroyed_at_most_once :
  forall drains clones k ops id, drops (fold_left (lstep drains clones) ops (linit k)) id <= 1.
Proof. exact destroyed_at_most_once. Qed.
Print Assumptions C05_destroyed_at_most_once.

Theorem C05_not_destroyed_while_queued_or_held :
  forall drains clones k ops id, let s := fold_left (lstep drains clones) ops (linit k) in 0 < owners s id -> drops s id = 0.
Proof. exact not_destroyed_while_owned. Qed.
Print Assumptions C05_not_destroyed_while_queued_or_held.

Theorem C05_destroyed_as_soon_as_last_owner_lets_go :
  forall drains clones k ops id, let s := fold_left (lstep drains clones) ops (linit k) in
    is_sent s id = true -> owners s id = 0 -> drops s id = 1.
Proof. exact destroyed_as_soon_as_released. Qed.
Print Assumptions C05_destroyed_as_soon_as_last_owner_lets_go.

Example C05_life_nonvacuous :
  let s := fold_left (lstep true true) [LSend 0; LSend 1; LRecv 0 3; LClone 3 4; LRecv 1 5; LDrop 3; LDrop 5; LTeardown] (linit 2) in
  (drops s 0, drops s 1, owners s 0, owners s 1) = (0, 1, 1, 0).
Proof. vm_compute. reflexivity. Qed.
