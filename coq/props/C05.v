(* C05 - Payloads are destroyed exactly once and their storage is never reused while held.
   (the teardown theorem instantiated with the struct definitions of /repo is in coq/gen/TeardownGen.v, regenerated every run) *)
From Coq Require Import List Arith Bool String.
From RM Require Import Teardown.
Import ListNotations.

(* a struct can be dropped with ANY number of events still buffered without touching freed memory exactly when no queue of
   payload handles is declared after an owned allocator *)
Theorem C05_teardown_safe_iff_declaration_order :
  forall fs, (forall pending, teardown fs pending = Safe) <-> well_ordered fs = true.
Proof. exact teardown_safe_iff. Qed.
Print Assumptions C05_teardown_safe_iff_declaration_order.

(* the shape the ogre_arc Multi channels had (allocator before the queues) is unsafe with one buffered event; the repaired one is safe *)
Example C05_teardown_order_matters :
  teardown [FOther; FAllocOwned; FQHandles; FOther] 1 = UseAfterFree /\ (forall n, teardown [FOther; FQHandles; FAllocOwned; FOther] n = Safe).
Proof. split; [reflexivity|]. apply teardown_safe_iff. reflexivity. Qed.
