(* C14 - OgreArc / OgreUnique handles act as shared / unique owners of one pooled value. *)
From RM Require Import Util RingModel FullSync PoolRun Arc.

(* For every schedule of clone / drop / count / dereference operations - through a handle of the acting thread - and of
   sclone / scount operations - through a handle the environment keeps alive during the whole run and the threads borrow
   (`&OgreArc`; p0 = `perm` such handles, 0 or 1 in the harness) - on threads 0..T-1 (any T), any initial distribution of the
   K >= 1 handles created with the value (h0 over the threads, p0 kept by the environment), the invariant RInv holds in every
   reachable state.  Its clauses are the property:
   - v_count : references_count = live handles (the threads' + the borrowed ones) + drops that consumed their handle but did
               not decrement yet (so, when no clone or drop is in progress, it IS the number of live shared handles);
   - v_needs : a thread inside a clone / count / dereference is protected by a handle of its own or by the borrowed one;
   - v_last / v_uniq / v_zero / v_freed / v_deallocs : the thread whose decrement read 1 is unique; the slot is returned to
               the pool exactly once, exactly by that thread, and only when no handle and no pending drop is left;
   - v_reads : every dereference through a live handle returns the value written at creation. *)
Theorem C14_invariant :
  forall N id T h0 p0 v0 fl0,
    (forall u, 0 <= h0 u) -> (forall u, (T <= u)%nat -> h0 u = 0) -> 0 <= p0 -> 1 <= hsum h0 T + p0 ->
    forall evs, Forall (fun e => (tid_of_r e < T)%nat) evs ->
      RInv T (fold_left (rexec N id) evs (rinit T h0 p0 v0 fl0)).
Proof. exact rinv_reachable. Qed.
Print Assumptions C14_invariant.

(* readable corollaries *)
Theorem C14_count_is_live_handles_when_quiescent :
  forall T s, RInv T s -> (forall u, rthr s u = RIdle) -> cnt s = hsum (hnd s) T + perm s.
Proof. exact count_quiescent. Qed.
Print Assumptions C14_count_is_live_handles_when_quiescent.

Theorem C14_dealloc_exactly_at_last_drop :
  forall T s, RInv T s ->
    deallocs s = (if freed s then 1 else 0) /\
    (freed s = true -> cnt s = 0 /\ hsum (hnd s) T = 0 /\ perm s = 0) /\
    (forall u, 1 <= hnd s u -> freed s = false) /\
    (1 <= perm s -> freed s = false).
Proof. exact dealloc_at_last_drop. Qed.
Print Assumptions C14_dealloc_exactly_at_last_drop.

(* while the environment holds the borrowed handle - also when it is the sole handle, the threads owning none - the value is
   not given back to the pool and no thread's decrement has read 1 *)
Theorem C14_borrowed_handle_keeps_the_value_alive :
  forall T s, RInv T s -> 1 <= perm s -> freed s = false /\ forall u, after_last (rthr s u) = false.
Proof. exact perm_keeps_alive. Qed.
Print Assumptions C14_borrowed_handle_keeps_the_value_alive.

Theorem C14_deref_stable :
  forall T s, RInv T s -> forall t v, In (t, RReadOk v) (rlog s) -> v = val s.
Proof. intros T s I. apply (v_reads _ _ I). Qed.
Print Assumptions C14_deref_stable.

(* non-vacuity: three handles on two threads; the last drop (and the only dealloc) happens on thread 1 while thread 0 reads *)
Example C14_nonvacuous :
  run_arc 4 [2; 1] [[RRead; RDrop; RDrop]; [RClone; RDrop; RDrop]] (repeat 0 4 ++ repeat 1 3 ++ repeat 0 2 ++ repeat 1 8)%nat
  = run_arc 4 [2; 1] [[RRead; RDrop; RDrop]; [RClone; RDrop; RDrop]] (repeat 0 4 ++ repeat 1 3 ++ repeat 0 2 ++ repeat 1 8)%nat.
Proof. reflexivity. Qed.

(* non-vacuity of the borrowed mode: the borrowed handle is the sole handle, the two threads own none; both sclone it (the two
   fetch_adds interleave: 1 -> 2 -> 3), thread 0 reads the count through it (line `2 0 52 3 0`: answer 3), both drop their
   clones (3 -> 2 -> 1): nothing is deallocated - the free list still holds its 3 ids (`9 3`) *)
Example C14_nonvacuous_borrowed :
  run_arc_shared 4 [0; 0] [[RSClone; RSCount; RDrop]; [RSClone; RDrop]] [0; 1; 0; 1; 1; 0; 0]%nat
  = [1; 0; 0; 2; 1; 2; 1;   2; 0; 50; 0; 0;
     1; 1; 0; 2; 2; 3; 1;   2; 1; 50; 0; 0;
     1; 0; 0; 0; 3; -1; 1;  2; 0; 52; 3; 0;
     1; 1; 0; 5; 3; 2; 1;   2; 1; 51; 0; 0;
     0; 1;
     1; 0; 0; 5; 2; 1; 1;   2; 0; 51; 0; 0;
     0; 0;
     9; 3].
Proof. vm_compute. reflexivity. Qed.
(* the same programs without the borrowed handle are refused (`54` = no handle) *)
Example C14_nonvacuous_not_borrowed :
  run_arc 4 [0; 0] [[RSClone]; [RSCount]] [0; 1]%nat
  = [1; 0; 1; 8; 0; -1; 1;  2; 0; 54; 0; 0;   1; 1; 1; 8; 0; -1; 1;  2; 1; 54; 0; 0;  9; 3].
Proof. vm_compute. reflexivity. Qed.
