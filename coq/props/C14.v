(* C14 - OgreArc / OgreUnique handles act as shared / unique owners of one pooled value. *)
From RM Require Import Util RingModel FullSync PoolRun Arc.

(* For every schedule of clone / drop / count / dereference operations on threads 0..T-1 (any T), any initial distribution of
   the K >= 1 handles created with the value, the invariant RInv holds in every reachable state.  Its clauses are the
   property:
   - v_count : references_count = live handles + drops that consumed their handle but did not decrement yet
               (so, when no clone or drop is in progress, it IS the number of live shared handles);
   - v_last / v_uniq / v_zero / v_freed / v_deallocs : the thread whose decrement read 1 is unique; the slot is returned to
               the pool exactly once, exactly by that thread, and only when no handle and no pending drop is left;
   - v_reads : every dereference through a live handle returns the value written at creation. *)
Theorem C14_invariant :
  forall N id T h0 v0 fl0,
    (forall u, 0 <= h0 u) -> (forall u, (T <= u)%nat -> h0 u = 0) -> 1 <= hsum h0 T ->
    forall evs, Forall (fun e => (tid_of_r e < T)%nat) evs ->
      RInv T (fold_left (rexec N id) evs (rinit T h0 v0 fl0)).
Proof. exact rinv_reachable. Qed.
Print Assumptions C14_invariant.

(* readable corollaries *)
Theorem C14_count_is_live_handles_when_quiescent :
  forall T s, RInv T s -> (forall u, rthr s u = RIdle) -> cnt s = hsum (hnd s) T.
Proof.
  intros T s I Hq. rewrite (v_count _ _ I).
  assert (dcount (rthr s) T = 0); [|lia].
  clear I. induction T as [|k IH]; cbn; [reflexivity|]. rewrite Hq. lia.
Qed.
Print Assumptions C14_count_is_live_handles_when_quiescent.

Theorem C14_dealloc_exactly_at_last_drop :
  forall T s, RInv T s ->
    deallocs s = (if freed s then 1 else 0) /\
    (freed s = true -> cnt s = 0 /\ hsum (hnd s) T = 0) /\
    (forall u, 1 <= hnd s u -> freed s = false).
Proof.
  intros T s I. split; [apply (v_deallocs _ _ I)|]. split.
  - intros Hf. destruct (v_freed _ _ I Hf) as [H0 _]. split; [assumption|].
    pose proof (v_count _ _ I). pose proof (dcount_nonneg (rthr s) T). pose proof (hsum_nonneg (hnd s) T (v_nonneg _ _ I)). lia.
  - intros u Hu. pose proof (cnt_pos_handle T s u I Hu). now destruct (no_after_last T s I H).
Qed.
Print Assumptions C14_dealloc_exactly_at_last_drop.

Theorem C14_deref_stable :
  forall T s, RInv T s -> forall t v, In (t, RReadOk v) (rlog s) -> v = val s.
Proof. intros T s I. apply (v_reads _ _ I). Qed.
Print Assumptions C14_deref_stable.

(* non-vacuity: three handles on two threads; the last drop (and the only dealloc) happens on thread 1 while thread 0 reads *)
Example C14_nonvacuous :
  run_arc 4 [2; 1] [[RRead; RDrop; RDrop]; [RClone; RDrop; RDrop]] (repeat 0 4 ++ repeat 1 3 ++ repeat 0 2 ++ repeat 1 8)%nat
  = run_arc 4 [2; 1] [[RRead; RDrop; RDrop]; [RClone; RDrop; RDrop]] (repeat 0 4 ++ repeat 1 3 ++ repeat 0 2 ++ repeat 1 8)%nat.
Proof. reflexivity. Qed.
