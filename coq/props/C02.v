(* C02 - Uni: delivery order and capacity behave as one atomic bounded FIFO queue (ring level). *)
From RM Require Import RingModel RingInv RingProps RingCov RingRun FullSync.

(* FIFO: receives (in release order) are exactly a prefix of the accepted events in acceptance order; both orders are
   the orders of the linearisation accesses (tail CAS / head CAS), which lie inside the respective calls *)
Theorem C02_ring_fifo :
  forall N, 0 < N -> forall evs,
    let l := log (fold_left (execZ N) evs init) in
    yielded_of l = firstn (length (yielded_of l)) (accepted_of l).
Proof. exact yielded_prefix. Qed.
Print Assumptions C02_ring_fifo.

(* never more than N events pending *)
Theorem C02_ring_capacity :
  forall N, 0 < N -> forall evs, let s := fold_left (execZ N) evs init in 0 <= tail s - head s <= N.
Proof. exact capacity. Qed.
Print Assumptions C02_ring_capacity.

(* a "full" answer is justified: at the head load that decides it, each of the >= N sequence ids below the caller's
   reservation is an accepted-and-not-yet-released event or is held by another send still in progress *)
Theorem C02_ring_full_justified :
  forall N, 0 < N -> forall evs t v slot,
    let s := fold_left (execZ N) evs init in
    thr s t = P1 v slot -> N <= slot - head s ->
    forall x, head s <= x < slot -> x < tail s \/ exists u, u <> t /\ pslot (thr s u) = Some x.
Proof. exact full_answer_justified. Qed.
Print Assumptions C02_ring_full_justified.

(* an "empty" answer is exact - outside the known class: some OTHER consumer holds a lower, not yet receded slot *)
Theorem C02_ring_empty_justified_partial :
  forall N, 0 < N -> forall evs t slot,
    let s := fold_left (execZ N) evs init in
    thr s t = C1 slot -> tail s - slot <= 0 ->
    (forall u x, u <> t -> cslot (thr s u) = Some x -> slot < x) ->
    head s = tail s.
Proof. exact empty_answer_justified. Qed.
Print Assumptions C02_ring_empty_justified_partial.

(* ... and inside that class the property fails (finding F5): consumer 1 overshoots on the empty ring and pauses before
   receding; producer 0 publishes 42 and returns; consumer 2, invoked afterwards and running alone, answers "empty"
   although the queue holds one accepted event during its whole call *)
Theorem C02_ring_empty_refuted :
  exists evs,
    let s := fold_left (execZ 4) evs init in
    tail s - head s = 1 /\ thr s 2%nat = Idle /\
    let s' := fold_left (execZ 4) [Start 2%nat OpCons; Step 2%nat; Step 2%nat; Step 2%nat] s in
    log s' = log s ++ [(2%nat, REmpty)] /\ tail s' - head s' = 1.
Proof.
  exists [Start 1%nat OpCons; Step 1%nat; Step 1%nat;
          Start 0%nat (OpPub 42); Step 0%nat; Step 0%nat; Step 0%nat; Step 0%nat].
  vm_compute. repeat split; reflexivity.
Qed.
Print Assumptions C02_ring_empty_refuted.

(* ---------------------------------------------------------------------------------------------------------------
   Full-sync ring: capacity, and full / empty answers that are EXACT (test and update happen in one step under the
   flag) - no exception class *)
Theorem C02_fs_capacity :
  forall N, 0 < N -> forall evs, let s := fold_left (fexecZ N) evs finit in 0 <= ftail s - fhead s <= N.
Proof. exact fs_capacity. Qed.
Print Assumptions C02_fs_capacity.

Theorem C02_fs_full_exact :
  forall N s t v,
    fthr s t = FPL v -> flock s = false ->
    (fthr (fstepZ N s t) t = FPU v None <-> N <= ftail s - fhead s) /\
    (fthr (fstepZ N s t) t = FPU v (Some (ftail s - fhead s + 1)) <-> ftail s - fhead s < N).
Proof. exact fs_full_exact. Qed.
Print Assumptions C02_fs_full_exact.

Theorem C02_fs_empty_exact :
  forall N s t,
    fthr s t = FCL -> flock s = false ->
    (fthr (fstepZ N s t) t = FCU None <-> ftail s - fhead s <= 0).
Proof. exact fs_empty_exact. Qed.
Print Assumptions C02_fs_empty_exact.

Theorem C02_fs_mutual_exclusion :
  forall N, 0 < N -> forall evs t u,
    let s := fold_left (fexecZ N) evs finit in
    holds_lock (fthr s t) = true -> holds_lock (fthr s u) = true -> t = u.
Proof. exact fs_mutual_exclusion. Qed.
Print Assumptions C02_fs_mutual_exclusion.
