(* C07 - Cancel / end terminates exactly the targeted streams, even parked ones. *)
From RM Require Import RingModel FullSync Chan ChanProps UniInst UniWake.

(* Movable full-sync Uni channel, every schedule, any number of producers and of cancel_all callers, any M, 0 < k <= M
   streams each driven by its own task: once cancelled, a stream is never left parked without having been notified
   (so it re-polls, finds nothing buffered, reads the cleared keep flag and answers end-of-stream). *)
Theorem C07_uni_fullsync_cancel_terminates :
  forall N M k, (0 < k)%nat -> (k <= M)%nat ->
  forall cevs i, Forall (wf_ev k) cevs -> (i < k)%nat -> ~ stuck_cancelled k (uf_run N M k cevs) i.
Proof. exact cancel_terminates. Qed.
Print Assumptions C07_uni_fullsync_cancel_terminates.

(* buffered events are still yielded after the cancel, then the stream ends: non-vacuity run (one event buffered when
   cancel_all is called on a parked stream) *)
Example C07_fullsync_nonvacuous :
  let progs := [[CoDrive 0]; [CoSend 7; CoCancelAll]] in
  let sched := (repeat 0 16 ++ repeat 1 12 ++ repeat 0 16)%nat in
  let s := fst (crun fsst (fstepZ 4) fstart fs_idle flog fobs 1 1 (wake_rule_fullsync 1) (cinit fsst 1 finit) (cprogs_of progs) sched) in
  clog _ s = [(0%nat, CPending 0); (0%nat, CPending 0); (1%nat, CSendOk 7); (1%nat, CCancelled); (0%nat, CYield 0 7); (0%nat, CEnd 0)].
Proof. vm_compute. reflexivity. Qed.
