(* C07 - Cancel / end terminates exactly the targeted streams, even parked ones. *)
From RM Require Import RingModel FullSync Chan ChanProps UniInst UniWake.

(* Movable full-sync Uni channel, every schedule, any number of producers and of cancel_all callers, any M, 0 < k <= M
   streams each driven by its own task: once cancelled, a stream is never left parked without having been notified
   (so it re-polls, finds nothing buffered, reads the cleared keep flag and answers end-of-stream). *)
Theorem C07_uni_fullsync_cancel_terminates :
  forall N M k, (0 < k)%nat -> (k <= M)%nat ->
  forall cevs i, Forall (wf_ev k) cevs -> (i < k)%nat -> ~ stuck_cancelled k (uf_run N M k cevs) i.
Proof. exact cancel_terminates. Qed.
Print Assumptions C07_uni_fullsync_cancel_terminates.

(* buffered events are still yielded after the cancel, then the stream ends: non-vacuity run (one event buffered when
   cancel_all is called on a parked stream) *)
Example C07_fullsync_nonvacuous :
  let progs := [[CoDrive 0]; [CoSend 7; CoCancelAll]] in
  let sched := (repeat 0 16 ++ repeat 1 12 ++ repeat 0 16)%nat in
  let s := fst (crun fsst (fstepZ 4) fstart fs_idle flog fobs 1 1 (wake_rule_fullsync 1) (cinit fsst 1 finit) (cprogs_of progs) sched) in
  clog _ s = [(0%nat, CPending 0); (0%nat, CPending 0); (1%nat, CSendOk 7); (1%nat, CCancelled); (0%nat, CYield 0 7); (0%nat, CEnd 0)].
Proof. vm_compute. reflexivity. Qed.

(* ---- the same statement WHATEVER the queue component is (Chan/UniCancel.v): the argument never looks inside the queue, so it covers the
   movable atomic channel (lock-free ring), the movable full-sync channel, the channel over the reserve machine ... - every schedule, any
   number of producers / length queries / cancel_all callers, every MAX_STREAMS, 0 < k <= MAX_STREAMS task-driven streams ---- *)
From RM Require Import UniCancel.
Theorem C07_cancel_terminates_whatever_the_queue :
  forall (Q : Type) (qstep : Q -> nat -> Q) (qstart : Q -> nat -> op -> Q) (qidle : Q -> nat -> bool) (qlog : Q -> list (nat * res))
         (M k : nat) (wake_rule : Z -> option nat), (0 < k)%nat -> (k <= M)%nat ->
  forall q0 cevs i, Forall (UniCancel.wf_ev k) cevs -> (i < k)%nat ->
    ~ UniCancel.stuck_cancelled Q k (fold_left (cexec Q qstep qstart qidle qlog M k wake_rule) cevs (cinit Q k q0)) i.
Proof. exact cancel_terminates_any_queue. Qed.
Print Assumptions C07_cancel_terminates_whatever_the_queue.

(* ... and for the channel machine of the zero-copy Uni channels (Chan/ChanZ.v: a release phase after every yield), again whatever the
   queue component (pool + lock-free id ring: zero-copy atomic; pool + full-sync id ring: zero-copy full-sync) *)
From RM Require Import ChanZ ZcCancel.
Theorem C07_zero_copy_cancel_terminates_whatever_the_queue :
  forall (Q : Type) (qstep : Q -> nat -> Q) (qstart : Q -> nat -> op -> Q) (qidle : Q -> nat -> bool) (qlog : Q -> list (nat * res)) (qrel : Q -> nat -> Q)
         (M k : nat) (wake_rule : Z -> option nat), (0 < k)%nat -> (k <= M)%nat ->
  forall q0 cevs i, Forall (ZcCancel.wf_ev k) cevs -> (i < k)%nat ->
    ~ ZcCancel.stuck_cancelled Q k (fold_left (ZC.cexec Q qstep qstart qidle qlog qrel M k wake_rule) cevs (ZC.cinit Q k q0)) i.
Proof. exact ZcCancel.cancel_terminates_any_queue. Qed.
Print Assumptions C07_zero_copy_cancel_terminates_whatever_the_queue.

(* instance check: the movable ATOMIC channel (lock-free ring) *)
Example C07_atomic_instance :
  forall N M k, (0 < k)%nat -> (k <= M)%nat -> forall cevs i, Forall (UniCancel.wf_ev k) cevs -> (i < k)%nat ->
    ~ UniCancel.stuck_cancelled st k (ua_run N M k cevs) i.
Proof. intros N M k Hk HM cevs i. exact (C07_cancel_terminates_whatever_the_queue st (stepZ N) start ring_idle log M k (wake_rule_atomic M) Hk HM init cevs i). Qed.

(* ---- the crossbeam Uni channel machine (Chan/ChanXb.v, in lock-step with uni/channels/movable/crossbeam.rs; proof in Chan/ChanXbCancel.v:
   the layered machine is viewed as a base-machine state and UniCancel's invariant is reused): after cancel_all_streams a targeted stream is
   never left parked un-notified with its keep flag cleared - every interleaving, any number of producers (send / send_with) and cancellers ---- *)
From RM Require Import ChanXb ChanXbCancel.
Theorem C07_crossbeam_cancel_terminates :
  forall N M k, (0 < k)%nat -> (k <= M)%nat -> forall evs i, Forall (wf_bev k) evs -> (i < k)%nat ->
    ~ stuck_cancelled_xb k (fold_left (bxexec N M k) evs (bxinit k)) i.
Proof. exact xb_cancel_terminates. Qed.
Print Assumptions C07_crossbeam_cancel_terminates.
