(* C18 - Stand-alone ogre_std stacks and queues are linearizable bounded LIFO / FIFO. *)
From RM Require Import Util RingModel RingInv RingProps FullSync PoolRun ZeroCopy Stack.

(* ---- the atomic-flag stack (the parking-lot stack has the same critical sections under a library mutex) ---- *)

(* at most one thread is ever between its successful flag swap and its flag store *)
Theorem C18_stack_mutual_exclusion :
  forall N, 0 < N -> forall evs t u,
    let s := fold_left (sexec N) evs sinit in sholds (sthr s t) = true -> sholds (sthr s u) = true -> t = u.
Proof. exact stack_mutual_exclusion. Qed.
Print Assumptions C18_stack_mutual_exclusion.

(* forward simulation to a bounded LIFO list, linearisation point = the successful swap: the step transforms the abstract
   stack exactly as the sequential specification says and computes the specification's answer (full / empty are exact) *)
Theorem C18_stack_push_refines_lifo :
  forall N s t v, SInv N s -> sthr s t = SPL v -> sflag s = false ->
    let s' := sstep N s t in
    (sabs s', last (slin s') SEmpty) = lifo_apply N (sabs s) (SPush v) /\ slin s' = slin s ++ [snd (lifo_apply N (sabs s) (SPush v))].
Proof. exact push_lp. Qed.
Print Assumptions C18_stack_push_refines_lifo.

Theorem C18_stack_pop_refines_lifo :
  forall N s t, SInv N s -> sthr s t = SQL -> sflag s = false ->
    let s' := sstep N s t in
    (sabs s', last (slin s') SEmpty) = lifo_apply N (sabs s) SPop /\ slin s' = slin s ++ [snd (lifo_apply N (sabs s) SPop)].
Proof. exact pop_lp. Qed.
Print Assumptions C18_stack_pop_refines_lifo.

(* the invariant those two lemmas need holds in every reachable state, and every response returned is the answer computed at
   that operation's linearisation point (responses, in return order, are a prefix of the linearisation-order answers) *)
Theorem C18_stack_invariant_and_responses :
  forall N, 0 < N -> forall evs,
    let s := fold_left (sexec N) evs sinit in SInv N s /\ exists x, slin s = resp s ++ x.
Proof. intros N HN evs. split; [exact (sinv_reachable N HN evs)|exact (responses_are_lp_answers N HN evs)]. Qed.
Print Assumptions C18_stack_invariant_and_responses.

Example C18_stack_nonvacuous :
  let progs := [[SPush 1; SPush 2; SPush 3]; [SPop; SPop; SPop]] in
  let s := fst (srun 2 sinit (fun t => nth t progs []) (repeat 0 6 ++ repeat 1 6 ++ [0;1;0;1;0;1])%nat) in
  map snd (slog s) = [SPushed 1; SPushed 2; SFull 3; SPopped 2; SPopped 1; SEmpty].
Proof. vm_compute. reflexivity. Qed.

(* ---- the two zero-copy non-blocking queues: a free-list ring + a ring of slot ids.  Whatever the composite does, each
   component only moves by its own start / step, so the ring theorems (C01 exactly-once / FIFO, C02 capacity and full / empty,
   C13 ownership) hold of the id ring and of the free list inside the queue ---- *)
Theorem C18_queue_components_are_ring_runs :
  forall (Q : Type) qstep qstart qidle qlog lha qlen_now (s0 : zst Q) zevs,
    (exists evs, fa Q (fold_left (zexec Q qstep qstart qidle qlog lha qlen_now) zevs s0) = fold_left (zqexec Q qstep qstart) evs (fa Q s0)) /\
    (exists evs, qb Q (fold_left (zexec Q qstep qstart qidle qlog lha qlen_now) zevs s0) = fold_left (zqexec Q qstep qstart) evs (qb Q s0)).
Proof. exact z_components_reachable. Qed.
Print Assumptions C18_queue_components_are_ring_runs.
