(* C18 - Stand-alone ogre_std stacks and queues are linearizable bounded LIFO / FIFO. *)
From RM Require Import Util RingModel RingInv RingProps FullSync PoolRun ZeroCopy Stack.

(* ---- the atomic-flag stack (the parking-lot stack has the same critical sections under a library mutex) ---- *)

(* at most one thread is ever between its successful flag swap and its flag store *)
Theorem C18_stack_mutual_exclusion :
  forall N, 0 < N -> forall evs t u,
    let s := fold_left (sexec N) evs sinit in sholds (sthr s t) = true -> sholds (sthr s u) = true -> t = u.
Proof. exact stack_mutual_exclusion. Qed.
Print Assumptions C18_stack_mutual_exclusion.

(* forward simulation to a bounded LIFO list, linearisation point = the successful swap: the step transforms the abstract
   stack exactly as the sequential specification says and computes the specification's answer (full / empty are exact) *)
Theorem C18_stack_push_refines_lifo :
  forall N s t v, SInv N s -> sthr s t = SPL v -> sflag s = false ->
    let s' := sstep N s t in
    (sabs s', last (slin s') SEmpty) = lifo_apply N (sabs s) (SPush v) /\ slin s' = slin s ++ [snd (lifo_apply N (sabs s) (SPush v))].
Proof. exact push_lp. Qed.
Print Assumptions C18_stack_push_refines_lifo.

Theorem C18_stack_pop_refines_lifo :
  forall N s t, SInv N s -> sthr s t = SQL -> sflag s = false ->
    let s' := sstep N s t in
    (sabs s', last (slin s') SEmpty) = lifo_apply N (sabs s) SPop /\ slin s' = slin s ++ [snd (lifo_apply N (sabs s) SPop)].
Proof. exact pop_lp. Qed.
Print Assumptions C18_stack_pop_refines_lifo.

(* the invariant those two lemmas need holds in every reachable state, and every response returned is the answer computed at
   that operation's linearisation point (responses, in return order, are a prefix of the linearisation-order answers) *)
Theorem C18_stack_invariant_and_responses :
  forall N, 0 < N -> forall evs,
    let s := fold_left (sexec N) evs sinit in SInv N s /\ exists x, slin s = resp s ++ x.
Proof. intros N HN evs. split; [exact (sinv_reachable N HN evs)|exact (responses_are_lp_answers N HN evs)]. Qed.
Print Assumptions C18_stack_invariant_and_responses.

Example C18_stack_nonvacuous :
  let progs := [[SPush 1; SPush 2; SPush 3]; [SPop; SPop; SPop]] in
  let s := fst (srun 2 sinit (fun t => nth t progs []) (repeat 0 6 ++ repeat 1 6 ++ [0;1;0;1;0;1])%nat) in
  map snd (slog s) = [SPushed 1; SPushed 2; SFull 3; SPopped 2; SPopped 1; SEmpty].
Proof. vm_compute. reflexivity. Qed.

(* ---- the two zero-copy non-blocking queues: a free-list ring + a ring of slot ids.  Whatever the composite does, each
   component only moves by its own start / step, so the ring theorems (C01 exactly-once / FIFO, C02 capacity and full / empty,
   C13 ownership) hold of the id ring and of the free list inside the queue ---- *)
Theorem C18_queue_components_are_ring_runs :
  forall (Q : Type) qstep qstart qidle qlog lha qlen_now (s0 : zst Q) zevs,
    (exists evs, fa Q (fold_left (zexec Q qstep qstart qidle qlog lha qlen_now) zevs s0) = fold_left (zqexec Q qstep qstart) evs (fa Q s0)) /\
    (exists evs, qb Q (fold_left (zexec Q qstep qstart qidle qlog lha qlen_now) zevs s0) = fold_left (zqexec Q qstep qstart) evs (qb Q s0)).
Proof. exact z_components_reachable. Qed.
Print Assumptions C18_queue_components_are_ring_runs.

(* ---- the stand-alone zero-copy ATOMIC queue at the PAYLOAD level (Alloc/ZcqPayload.v): for every interleaving of any number of threads
   issuing enqueue / dequeue / length, any BUFFER_SIZE, any initial pool contents ---- *)
From Coq Require Import Permutation.
From RM Require Import PoolRun ZcConserve ZcqPayload.

(* every slot id is in exactly one place: free list, id ring, inside an enqueue (allocated, not yet published) or inside a dequeue (taken
   out, not yet given back) - so a slot is never re-allocated while a dequeue is still reading it *)
Theorem C18_zero_copy_queue_slots_conserved :
  forall N, 0 < N -> forall p evs, let s := zq_run N p evs in
  exists ths, NoDup ths /\ (forall t, ~ In t ths -> enq_transit s t = [] /\ deq_transit s t = []) /\
    Permutation (ids_upto N) (inring (FA s) ++ inring (QB s) ++ flat_map (enq_transit s) ths ++ flat_map (deq_transit s) ths).
Proof. exact zcq_slots_conserved. Qed.
Print Assumptions C18_zero_copy_queue_slots_conserved.

(* the queued slots always hold exactly the enqueued values that were not taken yet, in enqueue order (no torn / stale / foreign payload) *)
Theorem C18_zero_copy_queue_queued_payloads :
  forall N, 0 < N -> forall p evs, let s := zq_run N p evs in
  map (POOL s) (inring (QB s)) = skipn (Z.to_nat (head (QB s))) (enqueued_of (ZLOG s)).
Proof. exact zcq_queued_payloads. Qed.
Print Assumptions C18_zero_copy_queue_queued_payloads.

(* FIFO at the level of the answers: with one dequeuing thread the values dequeued are, in order, a prefix of the values enqueued ... *)
Theorem C18_zero_copy_queue_fifo_single_consumer :
  forall N, 0 < N -> forall p c evs, (forall t, In (ZStart t ZDeq) evs -> t = c) -> let s := zq_run N p evs in
  dequeued_of (ZLOG s) = firstn (length (dequeued_of (ZLOG s))) (enqueued_of (ZLOG s)).
Proof. exact zcq_fifo_single_consumer. Qed.
Print Assumptions C18_zero_copy_queue_fifo_single_consumer.

(* ... with several dequeuing threads the ANSWERS of overlapping dequeues may be logged in either order (the order of the answers is not
   the order of the dequeues: see the Example), so the statement is: when no dequeue is in progress, the values dequeued are a permutation
   of the first `head` values enqueued - each enqueued value at most once, none invented (in the order in which the dequeues took their
   slot out of the id ring it is exactly that prefix: zcq_fifo_in_consume_order) *)
Theorem C18_zero_copy_queue_dequeued_is_the_enqueued_prefix :
  forall N, 0 < N -> forall p evs, let s := zq_run N p evs in
  (forall t, deq_transit s t = []) ->
  Permutation (dequeued_of (ZLOG s)) (firstn (Z.to_nat (head (QB s))) (enqueued_of (ZLOG s))).
Proof. exact zcq_dequeued_permutation. Qed.
Print Assumptions C18_zero_copy_queue_dequeued_is_the_enqueued_prefix.

Example C18_answers_of_overlapping_dequeues_in_either_order :
  let s := zq_run 2 (fun _ => 0) cx_evs in
  enqueued_of (ZLOG s) = [10; 20] /\ dequeued_of (ZLOG s) = [20; 10].
Proof. destruct zcq_log_order_fifo_refuted as (_ & H1 & H2 & _). split; assumption. Qed.

(* ---- the same for the stand-alone zero-copy FULL-SYNC queue (Alloc/ZcqPayloadFS.v; the abstract machine and its invariants are those of the
   atomic queue, only the concrete case analysis is new): conservation, FIFO of the answers with one dequeuing thread, permutation of the
   enqueued prefix with several ---- *)
From RM Require ZcqPayloadFS.
Theorem C18_zero_copy_full_sync_queue_slots_conserved :
  forall N, 0 < N -> forall p evs, let s := ZcqPayloadFS.zqf_run N p evs in
  exists ths, NoDup ths /\ (forall t, ~ In t ths -> ZcqPayloadFS.enq_transit s t = [] /\ ZcqPayloadFS.deq_transit s t = []) /\
    Permutation (ids_upto N) (ZcConserveFS.finring (ZcqPayloadFS.FA s) ++ ZcConserveFS.finring (ZcqPayloadFS.QB s) ++
                              flat_map (ZcqPayloadFS.enq_transit s) ths ++ flat_map (ZcqPayloadFS.deq_transit s) ths).
Proof. exact ZcqPayloadFS.zcqf_slots_conserved. Qed.
Print Assumptions C18_zero_copy_full_sync_queue_slots_conserved.

Theorem C18_zero_copy_full_sync_queue_fifo_single_consumer :
  forall N, 0 < N -> forall p c evs, (forall t, In (ZStart t ZDeq) evs -> t = c) -> let s := ZcqPayloadFS.zqf_run N p evs in
  dequeued_of (ZcqPayloadFS.ZLOG s) = firstn (length (dequeued_of (ZcqPayloadFS.ZLOG s))) (enqueued_of (ZcqPayloadFS.ZLOG s)).
Proof. exact ZcqPayloadFS.zcqf_fifo_single_consumer. Qed.
Print Assumptions C18_zero_copy_full_sync_queue_fifo_single_consumer.

Theorem C18_zero_copy_full_sync_queue_dequeued_is_the_enqueued_prefix :
  forall N, 0 < N -> forall p evs, let s := ZcqPayloadFS.zqf_run N p evs in
  (forall t, ZcqPayloadFS.deq_pending s t = []) ->
  Permutation (dequeued_of (ZcqPayloadFS.ZLOG s)) (firstn (Z.to_nat (fhead (ZcqPayloadFS.QB s))) (enqueued_of (ZcqPayloadFS.ZLOG s))).
Proof. exact ZcqPayloadFS.zcqf_dequeued_permutation. Qed.
Print Assumptions C18_zero_copy_full_sync_queue_dequeued_is_the_enqueued_prefix.
