(* C10 - A listener sees exactly the events sent during its lifetime; stream ids recycle.
   Model: Chan/Multi.v (create_stream_id / report_stream_dropped as atomic steps; the stepped versions are C17's). *)
From RM Require Import Util RingModel RingInv RingProps Chan Multi MultiProps.

(* (`atomic_ev`: listeners are created and dropped between sends, as single steps - the property's histories; creation and
   removal racing with a send is C17.)
   bookkeeping, for every history of one thread, of any length: the vacant FIFO never holds an id twice, holds only ids
   below MAX_STREAMS, and the live streams are exactly the ids below MAX_STREAMS that are not vacant - hence at most
   MAX_STREAMS streams exist and #live = MAX_STREAMS - #vacant at all times *)
Theorem C10_bookkeeping :
  forall N M mevs, Forall (fun e => mtid e = 0%nat /\ atomic_ev e = true) mevs ->
    let s := fold_left (mexec N M) mevs (minit M) in
    NoDup (vacant s) /\ (forall i, In i (vacant s) -> (i < M)%nat) /\
    (forall i, alive s i = true <-> ((i < M)%nat /\ ~ In i (vacant s))).
Proof. intros N M mevs H s. destruct (bookkeeping_sequential N M mevs H) as [H1 H2 H3]. auto. Qed.
Print Assumptions C10_bookkeeping.

(* creating and dropping any number of times never exhausts the ids: whenever fewer than MAX_STREAMS streams are alive,
   the vacant list is non-empty, so the next create succeeds *)
Theorem C10_ids_never_exhausted :
  forall N M mevs, Forall (fun e => mtid e = 0%nat /\ atomic_ev e = true) mevs ->
    let s := fold_left (mexec N M) mevs (minit M) in
    (exists i, (i < M)%nat /\ alive s i = false) -> vacant s <> [].
Proof. intros N M mevs H s. apply ids_never_exhausted. now apply bookkeeping_sequential. Qed.
Print Assumptions C10_ids_never_exhausted.

(* each stream id's deliveries: at most once, in acceptance order, nothing invented - also across create / drop *)
Theorem C10_per_id_at_most_once_in_order :
  forall N M, 0 < N -> forall mevs i,
    let l := log (rings (fold_left (mexec N M) mevs (minit M)) i) in
    yielded_of l = firstn (length (yielded_of l)) (accepted_of l).
Proof. exact listener_exactly_once. Qed.
Print Assumptions C10_per_id_at_most_once_in_order.

(* "nothing that was sent before its creation" is FALSE of the faithful model (finding F8): a listener dropped with an
   unconsumed event leaves it in its ring, and the next stream that gets the id yields it.
   Witness (MAX_STREAMS = 1): create ; send 7 ; drop 0 ; create ; poll 0  ->  the new stream yields 7. *)
Theorem C10_no_stale_events_refuted :
  exists prog, let s := fst (mrun 8 idz idz 1 (minit 1) (fun t => nth t [prog] []) (repeat 0%nat 40)) in
    map snd (mlog s) = [MCreated 0; MSendOk 7; MDropped 0%nat; MCreated 0; MYield 0%nat 7].
Proof. exists [MoCreate; MoSend 7; MoDrop 0; MoCreate; MoPoll 0]. vm_compute. reflexivity. Qed.
Print Assumptions C10_no_stale_events_refuted.

(* non-vacuity of the bookkeeping theorem: ids recycle in FIFO order *)
Example C10_nonvacuous :
  let prog := [MoCreate; MoCreate; MoDrop 0; MoCreate; MoDrop 1; MoCreate; MoCreate] in
  let s := fst (mrun 8 idz idz 2 (minit 2) (fun t => nth t [prog] []) (repeat 0%nat 40)) in
  map snd (mlog s) = [MCreated 0; MCreated 1; MDropped 0%nat; MCreated 0; MDropped 1%nat; MCreated 1; MNoStream].
Proof. vm_compute. reflexivity. Qed.
