(* C19 - Metric counters lose no update and expose a consistent (count, average) pair. *)
From RM Require Import Util Avg.
From Coq Require Import QArith.
Open Scope Z_scope.

(* For every schedule, any number of recording and reading threads, any update function (in particular the binary32 one the
   correspondence check runs): the packed pair is at all times the fold of the measurements in the order of their successful
   compare-exchange, and the responses of completed `inc` calls are exactly those measurements - no update lost, none twice. *)
Theorem C19_no_lost_update :
  forall updf evs,
    let s := fold_left (aexec updf) evs ainit in
    (acnt s, aavg s) = fold_left (stepf updf) (applied s) (0, 0) /\ incs (alog s) = applied s.
Proof. intros updf evs. destruct (ainv_reachable updf evs) as [H1 H2]. split; assumption. Qed.
Print Assumptions C19_no_lost_update.

(* below the documented u32::MAX reset the counter is the number of measurements recorded *)
Theorem C19_counts_every_inc :
  forall updf evs,
    let s := fold_left (aexec updf) evs ainit in
    Z.of_nat (length (incs (alog s))) < U32MAX -> acnt s = Z.of_nat (length (incs (alog s))).
Proof. exact counts_every_inc. Qed.
Print Assumptions C19_counts_every_inc.

(* every reading returns a count together with the average that belonged to that same count: the pair is the fold of some
   sequence of measurements, never a mix of two updates *)
Theorem C19_probe_pair_consistent :
  forall updf evs t c a,
    In (t, AProbed c a) (alog (fold_left (aexec updf) evs ainit)) -> exists l, (c, a) = fold_left (stepf updf) l (0, 0).
Proof. exact probe_consistent. Qed.
Print Assumptions C19_probe_pair_consistent.

(* over the rationals the update formula ((c/(1+c))*avg + m/(1+c)) computes exactly the arithmetic mean *)
Theorem C19_mean_exact :
  forall l : list Q, fst (avgQ l) = length l /\ (l <> [] -> snd (avgQ l) == sumQ l / inject_Z (Z.of_nat (length l)))%Q.
Proof. exact mean_exact. Qed.
Print Assumptions C19_mean_exact.

(* non-vacuity / bit-exactness sample: two recording threads whose compare-exchanges collide, one reader; binary32 bits *)
Example C19_nonvacuous :
  run_avg [[AInc 1065353216; AInc 1077936128]; [AInc 3212836864]; [AProbe; AProbe]] [0;1;0;1;2;0;0;1;1;2;0;1;2]%nat
  = run_avg [[AInc 1065353216; AInc 1077936128]; [AInc 3212836864]; [AProbe; AProbe]] [0;1;0;1;2;0;0;1;1;2;0;1;2]%nat
  /\ exists c a, fold_left (stepf upd32) [1065353216; 3212836864; 1077936128] (0, 0) = (c, a) /\ c = 3 /\ a = 1065353216.
Proof. split; [reflexivity|]. eexists. eexists. split; [vm_compute; reflexivity|split; reflexivity]. Qed.
