(* C20 - A suspended async send never blocks other producers or the consumers.
   `send_with_async` = reserve the slot ; await the setter ; publish. While the setter is pending the producer is parked between
   the two halves. On the movable channels the property is FALSE of the faithful models (finding F12): *)
From RM Require Import Util RingModel RingInv RingProps FullSync Suspend.

(* movable atomic (lock-free ring): a producer that reserved a LATER slot and reached its publication CAS stays there for
   every continuation in which the suspended one is not resumed - of any length, whatever else is scheduled *)
Theorem C20_ring_refuted_later_sends_never_return :
  forall N, 0 < N -> forall evs s a b va sa la vb sb lb,
    Inv N s -> thr s a = P3 va sa la -> thr s b = P4 vb sb lb -> sa < sb ->
    Forall (not_step a) evs ->
    let s' := fold_left (execZ N) evs s in
    thr s' a = P3 va sa la /\ thr s' b = P4 vb sb lb /\ tail s' <= sa.
Proof. exact ring_suspended_blocks_later_publishers. Qed.
Print Assumptions C20_ring_refuted_later_sends_never_return.

(* such a state is reachable: b's send started after a's reservation, two threads, three + four steps *)
Example C20_ring_refuted_witness :
  let s := fold_left (execZ 4) [Start 0%nat (OpPub 7); Step 0%nat; Step 0%nat; Start 1%nat (OpPub 8); Step 1%nat; Step 1%nat; Step 1%nat] init in
  thr s 0%nat = P3 7 0 0 /\ thr s 1%nat = P4 8 1 1.
Proof. vm_compute. split; reflexivity. Qed.

(* movable full-sync: the suspended producer holds the flag: while it is not resumed nothing is accepted, nothing is delivered
   and every send / poll that waits for the flag keeps waiting - consumers included *)
Theorem C20_fullsync_refuted_everybody_waits :
  forall N, 0 < N -> forall evs s a v r,
    FInv N s -> fthr s a = FPU v r ->
    Forall (fnot_step a) evs ->
    let s' := fold_left (fexecZ N) evs s in
    fthr s' a = FPU v r /\ flock s' = true /\ fhead s' = fhead s /\ ftail s' = ftail s /\ fpublished s' = fpublished s /\ fdelivered s' = fdelivered s /\
    (forall w, fwaiting (fthr s w) = true -> fthr s' w = fthr s w).
Proof. exact fs_suspended_blocks_everybody. Qed.
Print Assumptions C20_fullsync_refuted_everybody_waits.

(* the last clause holds: once resumed, the suspended send's event is accepted and delivered like any other (C01's theorem
   covers every continuation); here: the witness continued *)
Example C20_resumed_event_is_delivered :
  let s := fold_left (execZ 4) ([Start 0%nat (OpPub 7); Step 0%nat; Step 0%nat; Start 1%nat (OpPub 8); Step 1%nat; Step 1%nat; Step 1%nat; Step 1%nat;
                                 Step 0%nat; Step 0%nat; Step 1%nat] ++ concat (repeat [Start 2%nat OpCons; Step 2%nat; Step 2%nat; Step 2%nat; Step 2%nat] 2)) init in
  yielded_of (log s) = [7; 8].
Proof. vm_compute. reflexivity. Qed.

(* ---- the positive half, zero-copy full-sync Uni channel (Chan/ChanZ.v over Alloc/ZcUni.v, the machine in lock-step with
   ChannelUniZeroCopyFullSync; Alloc/ZcSolo.v, Chan/ChanZInst.v): send_with_async = allocate a pool slot ; await ; publish the id.
   In ANY state of ANY run of the channel in which no thread stands between a flag CAS and the flag store - the other threads are idle,
   parked between operations, or suspended inside send_with_async - a consume takes 2 own steps, a send at most 4, a handle release 2:
   nobody waits for the suspended producer.  (`suspended` threads hold no flag: ZcSolo.suspended_holds_no_flag.) ---- *)
From RM Require Import Chan ZeroCopy ZcUni ZcSolo ChanZ ChanZProps ChanZInst.
Import ZC.

Theorem C20_zero_copy_full_sync_suspended_send_blocks_nobody :
  forall N, 0 < N -> forall M k wr cevs t,
  let s := q _ (zcf_run N M k wr cevs) in
  (forall u, holds_lock (fthr (ua _ s) u) = false /\ holds_lock (fthr (ub _ s) u) = false) ->
  uthr _ s t = UIdle ->
  done_with s (solo N 2 (zstart s t OpCons) t) t OpCons /\
  (forall v, exists n, (n <= 4)%nat /\ done_with s (solo N n (zstart s t (OpPub v)) t) t (OpPub v)) /\
  (forall id, uheld _ s t = Some id -> let s' := solo N 2 (zrelease s t) t in uthr _ s' t = UIdle /\ unlocked s' /\ ulog _ s' = ulog _ s).
Proof. exact zcf_suspended_send_blocks_nobody. Qed.
Print Assumptions C20_zero_copy_full_sync_suspended_send_blocks_nobody.

(* non-vacuity: a channel run in which thread 0's send has allocated its slot and stands before the publication of the id (what a
   suspended send_with_async looks like): it is `suspended`, nobody holds a flag, thread 1 is idle - the hypotheses hold; and thread 1's
   send, run alone from there, completes in 4 steps while thread 0 still has not moved *)
Example C20_zero_copy_nonvacuous :
  let s := q _ (zcf_run 4 1 1 (wake_rule_fullsync 1) [CStart 0 (CoSend 7); CStep 0; CStep 0]) in
  suspended s 0 /\ (forall u, holds_lock (fthr (ua _ s) u) = false /\ holds_lock (fthr (ub _ s) u) = false) /\ uthr _ s 1%nat = UIdle /\
  let s' := solo 4 4 (zstart s 1%nat (OpPub 8)) 1%nat in
  map snd (ulog _ s') = [ROk 8 1] /\ suspended s' 0.
Proof.
  split; [exists 7, 0; vm_compute; repeat split; reflexivity|].
  split; [intros u; vm_compute; destruct u as [|[|u]]; split; reflexivity|].
  split; [reflexivity|]. split; [vm_compute; reflexivity|exists 7, 0; vm_compute; repeat split; reflexivity].
Qed.

(* ---- the zero-copy ATOMIC Uni channel (Alloc/ZcSoloA.v, Chan/ChanZInstA.v): a lock-free ring cannot promise progress while another thread
   is in the middle of an operation on it, so the hypothesis is "calm": in both rings every thread is idle or stands before the first access
   of a publication - which is exactly where a SUSPENDED send_with_async stands (slot allocated, id not yet published: it holds a pool slot
   and nothing in either ring).  In every state of every channel run in which every thread is idle in both rings or is such a suspended
   producer, an idle thread's consume completes in <= 4 of its own steps, its send in <= 8, the release of a handle it holds in <= 4 - each
   with its response appended, every other thread (every suspended producer in particular) left exactly where it was; and a suspended
   producer that is resumed under the same hypothesis finishes in 4 own steps. ---- *)
From RM Require Import RingInv RingProps ZcSoloA ChanZInstA.
Theorem C20_zero_copy_atomic_suspended_send_blocks_nobody :
  forall N, 0 < N -> forall M k wr cevs t,
  let s := q _ (zc_run N M k wr cevs) in
  (forall u, (thr (ua _ s) u = Idle /\ thr (ub _ s) u = Idle) \/ suspended s u) -> uthr _ s t = UIdle ->
  calm_progress N s t /\
  (exists n r, (n <= 4)%nat /\ completes N s (astart s t OpCons) n t (Some r) /\ matches OpCons r) /\
  (forall v, exists n r, (n <= 8)%nat /\ completes N s (astart s t (OpPub v)) n t (Some r) /\ matches (OpPub v) r) /\
  (forall id, uheld _ s t = Some id -> exists n, (n <= 4)%nat /\ completes N s (arelease s t) n t None).
Proof. exact zca_idle_or_suspended_blocks_nobody. Qed.
Print Assumptions C20_zero_copy_atomic_suspended_send_blocks_nobody.

Theorem C20_zero_copy_atomic_suspended_send_resumes :
  forall N, 0 < N -> forall M k wr cevs t v id,
  let s := q _ (zc_run N M k wr cevs) in
  calm (ua _ s) -> calm (ub _ s) -> uthr _ s t = UEnqB v id -> thr (ub _ s) t = P0 id -> thr (ua _ s) t = Idle ->
  tail (ub _ s) - head (ub _ s) < N ->
  completes N s s 4 t (Some (ROk v (tail (ub _ s) - head (ub _ s) + 1))).
Proof. exact zca_suspended_send_resumes. Qed.
Print Assumptions C20_zero_copy_atomic_suspended_send_resumes.
