(* C20 - A suspended async send never blocks other producers or the consumers.
   `send_with_async` = reserve the slot ; await the setter ; publish. While the setter is pending the producer is parked between
   the two halves. On the movable channels the property is FALSE of the faithful models (finding F12): *)
From RM Require Import Util RingModel RingInv RingProps FullSync Suspend.

(* movable atomic (lock-free ring): a producer that reserved a LATER slot and reached its publication CAS stays there for
   every continuation in which the suspended one is not resumed - of any length, whatever else is scheduled *)
Theorem C20_ring_refuted_later_sends_never_return :
  forall N, 0 < N -> forall evs s a b va sa la vb sb lb,
    Inv N s -> thr s a = P3 va sa la -> thr s b = P4 vb sb lb -> sa < sb ->
    Forall (not_step a) evs ->
    let s' := fold_left (execZ N) evs s in
    thr s' a = P3 va sa la /\ thr s' b = P4 vb sb lb /\ tail s' <= sa.
Proof. exact ring_suspended_blocks_later_publishers. Qed.
Print Assumptions C20_ring_refuted_later_sends_never_return.

(* such a state is reachable: b's send started after a's reservation, two threads, three + four steps *)
Example C20_ring_refuted_witness :
  let s := fold_left (execZ 4) [Start 0%nat (OpPub 7); Step 0%nat; Step 0%nat; Start 1%nat (OpPub 8); Step 1%nat; Step 1%nat; Step 1%nat] init in
  thr s 0%nat = P3 7 0 0 /\ thr s 1%nat = P4 8 1 1.
Proof. vm_compute. split; reflexivity. Qed.

(* movable full-sync: the suspended producer holds the flag: while it is not resumed nothing is accepted, nothing is delivered
   and every send / poll that waits for the flag keeps waiting - consumers included *)
Theorem C20_fullsync_refuted_everybody_waits :
  forall N, 0 < N -> forall evs s a v r,
    FInv N s -> fthr s a = FPU v r ->
    Forall (fnot_step a) evs ->
    let s' := fold_left (fexecZ N) evs s in
    fthr s' a = FPU v r /\ flock s' = true /\ fhead s' = fhead s /\ ftail s' = ftail s /\ fpublished s' = fpublished s /\ fdelivered s' = fdelivered s /\
    (forall w, fwaiting (fthr s w) = true -> fthr s' w = fthr s w).
Proof. exact fs_suspended_blocks_everybody. Qed.
Print Assumptions C20_fullsync_refuted_everybody_waits.

(* the last clause holds: once resumed, the suspended send's event is accepted and delivered like any other (C01's theorem
   covers every continuation); here: the witness continued *)
Example C20_resumed_event_is_delivered :
  let s := fold_left (execZ 4) ([Start 0%nat (OpPub 7); Step 0%nat; Step 0%nat; Start 1%nat (OpPub 8); Step 1%nat; Step 1%nat; Step 1%nat; Step 1%nat;
                                 Step 0%nat; Step 0%nat; Step 1%nat] ++ concat (repeat [Start 2%nat OpCons; Step 2%nat; Step 2%nat; Step 2%nat; Step 2%nat] 2)) init in
  yielded_of (log s) = [7; 8].
Proof. vm_compute. reflexivity. Qed.
