(* C16 - A rejected send changes nothing, never blocks; retry works once there is room. *)
From RM Require Import RingModel RingInv RingProps RingCov RingSolo FullSync Chan ChanProps UniInst.

(* until a send is validated, the only cell it writes is the reservation counter: head, tail, the buffer, the consumers'
   counter, the published and delivered sequences are untouched and no other thread's locals change (every state) *)
Theorem C16_ring_reject_path_writes_nothing_persistent :
  forall N s t,
    in_reject_path (thr s t) ->
    head (stepZ N s t) = head s /\ tail (stepZ N s t) = tail s /\ dhead (stepZ N s t) = dhead s /\ buf (stepZ N s t) = buf s /\
    published (stepZ N s t) = published s /\ delivered (stepZ N s t) = delivered s /\
    forall u, u <> t -> thr (stepZ N s t) u = thr s u.
Proof. exact reject_path_frame. Qed.
Print Assumptions C16_ring_reject_path_writes_nothing_persistent.

(* no consumer step ever changes the producers' reservation counter: a rejected send never waits for a consumer *)
Theorem C16_ring_never_waits_for_consumer :
  forall N s t,
    match thr s t with C0 | C1 _ | C2 _ | C3 _ | C4 _ _ | L0 | L1 _ | Idle => True | _ => False end ->
    etail (stepZ N s t) = etail s.
Proof. exact consumer_keeps_etail. Qed.
Print Assumptions C16_ring_never_waits_for_consumer.

(* nothing leaks: whenever no operation is in progress both reservation counters are back on the published ones *)
Theorem C16_ring_no_leak :
  forall N, 0 < N -> forall evs,
    let s := fold_left (execZ N) evs init in
    (forall t, thr s t = Idle) -> etail s = tail s /\ dhead s = head s.
Proof. exact quiescent_no_reservations. Qed.
Print Assumptions C16_ring_no_leak.

(* prompt rejection that changes nothing: on a full ring with nobody else active, a send takes exactly 3 of its own steps,
   hands the payload back, and leaves every counter, the buffer, the published and delivered sequences as they were *)
Theorem C16_ring_reject_prompt_and_neutral :
  forall N, 0 < N -> forall evs t v,
    let s := fold_left (execZ N) evs init in
    quiescent s -> N <= tail s - head s ->
    let s' := stepZ N (stepZ N (stepZ N (start s t (OpPub v)) t) t) t in
    log s' = log s ++ [(t, RFull v)] /\ head s' = head s /\ tail s' = tail s /\ etail s' = etail s /\ dhead s' = dhead s /\
    buf s' = buf s /\ published s' = published s /\ delivered s' = delivered s /\ thr s' t = Idle.
Proof. exact solo_send_rejected. Qed.
Print Assumptions C16_ring_reject_prompt_and_neutral.

(* retry works as soon as there is room, in every fill/drain cycle (any history): with fewer than N events pending a send is
   accepted (4 own steps), so exactly N events can be outstanding, never fewer *)
Theorem C16_ring_retry_accepted_when_room :
  forall N, 0 < N -> forall evs t v,
    let s := fold_left (execZ N) evs init in
    quiescent s -> tail s - head s < N ->
    let s' := stepZ N (stepZ N (stepZ N (stepZ N (start s t (OpPub v)) t) t) t) t in
    log s' = log s ++ [(t, ROk v (tail s - head s + 1))] /\ tail s' = tail s + 1 /\ head s' = head s /\ thr s' t = Idle.
Proof. exact solo_send_accepted. Qed.
Print Assumptions C16_ring_retry_accepted_when_room.

(* ... and a consumer makes that room: on a non-empty quiescent ring a consume returns the oldest event in 4 own steps *)
Theorem C16_ring_consume_makes_room :
  forall N, 0 < N -> forall evs t,
    let s := fold_left (execZ N) evs init in
    quiescent s -> head s < tail s ->
    let s' := stepZ N (stepZ N (stepZ N (stepZ N (start s t OpCons) t) t) t) t in
    log s' = log s ++ [(t, RGot (nthz (published s) (head s)))] /\ head s' = head s + 1 /\ tail s' = tail s.
Proof. exact solo_consume. Qed.
Print Assumptions C16_ring_consume_makes_room.

(* full-sync ring: the rejection is decided under the flag and is exact (C02_fs_full_exact); channel level: a send answers
   Full exactly when its queue operation was rejected (no wake, no yield is caused by it) *)
Theorem C16_uni_full_is_exactly_queue_rejection :
  forall N M k cevs,
    (let s := ua_run N M k cevs in csendfull (clog st s) = rejected_of (log (q st s))) /\
    (let s := uf_run N M k cevs in csendfull (clog fsst s) = rejected_of (flog (q fsst s))).
Proof. intros N M k cevs. split; [exact (ua_full_iff_rejected N M k cevs)|exact (uf_full_iff_rejected N M k cevs)]. Qed.
Print Assumptions C16_uni_full_is_exactly_queue_rejection.
