(* C13 - the stand-alone pool allocator with the client discipline made explicit (theories/Alloc/PoolConserve.v): the pool machine's
   events are  PStep t | PStartAlloc t | PStartDealloc t v,  and a dealloc of v by thread t moves the state only if t is idle AND holds v
   (`pstart_dealloc_guard`); the initial state is the ring right after `new()` (pfill's result, by definition).  For every N > 0, every
   event list and any number of threads: *)
From Coq Require Import List ZArith Permutation.
Import ListNotations.
From RM Require Import RingModel RingInv RingProps RingCov FullSync PoolRun ZcConserve PoolConserve.
Open Scope Z_scope.

(* SLOT CONSERVATION: the N slot ids are, as a multiset, exactly: the free list ++ what the threads hold ++ what is on its way back
   inside a dealloc in progress *)
Theorem C13_pool_slots_conserved : forall N, 0 < N -> forall evs,
  let s := pool_run N evs in
  exists ths, NoDup ths /\ (forall t, ~ In t ths -> pheld s t = [] /\ transit s t = []) /\
    Permutation (ids_upto N) (inring (pring s) ++ flat_map (pheld s) ths ++ flat_map (transit s) ths).
Proof. exact pool_slots_conserved. Qed.
Print Assumptions C13_pool_slots_conserved.

(* EXCLUSIVE OWNERSHIP: two threads never hold the same slot, no thread holds one twice, and a held slot is neither in the free list
   nor on its way back *)
Theorem C13_pool_exclusive_ownership : forall N, 0 < N -> forall evs,
  let s := pool_run N evs in
  (forall t u id, In id (pheld s t) -> In id (pheld s u) -> t = u) /\
  (forall t, NoDup (pheld s t)) /\
  (forall t id, In id (pheld s t) ->
     0 <= id < N /\ ~ In id (inring (pring s)) /\ forall u, ~ In id (transit s u)).
Proof. exact pool_exclusive_ownership. Qed.
Print Assumptions C13_pool_exclusive_ownership.

(* a deallocation never meets a full free list (its result is ignored by the code: dealloc_id) and always completes as accepted *)
Theorem C13_pool_dealloc_never_meets_full : forall N, 0 < N -> forall evs,
  let s := pool_run N evs in let x := pring s in
  (forall t v sl, thr x t <> P2 v sl) /\
  (forall t v, ~ In (t, RFull v) (log x)) /\
  etail x - head x <= N /\
  (forall t v, In v (pheld s t) \/ pval (thr x t) = Some v -> tail x - head x < N /\ ~ In v (inring x)) /\
  (forall t v, pval (thr x t) = Some v ->
     pval (thr (stepZ N x t) t) = Some v \/
     (thr (stepZ N x t) t = Idle /\ exists len, log (stepZ N x t) = log x ++ [(t, ROk v len)])).
Proof. exact pool_dealloc_never_meets_full. Qed.
Print Assumptions C13_pool_dealloc_never_meets_full.

(* EXHAUSTION IS EXACT when no other thread is inside a ring operation (with others inside, the lock-free free list can answer a
   spurious 'empty': known finding C13.freelist.spurious_empty): an allocation run alone from a quiet state fails iff all N slots are
   held, and otherwise returns the OLDEST free slot (reuse in FIFO order) *)
Theorem C13_pool_quiet_alloc_exact : forall N, 0 < N -> forall evs t,
  let s := pool_run N evs in
  (forall u, thr (pring s) u = Idle) ->
  exists ths, NoDup ths /\ (forall u, ~ In u ths -> pheld s u = []) /\
    Permutation (ids_upto N) (inring (pring s) ++ flat_map (pheld s) ths) /\
    let s3 := pool_run N (evs ++ [PStartAlloc t; PStep t; PStep t; PStep t]) in
    let s4 := pool_run N (evs ++ [PStartAlloc t; PStep t; PStep t; PStep t; PStep t]) in
    (Z.of_nat (length (flat_map (pheld s) ths)) = N ->
       log (pring s3) = log (pring s) ++ [(t, REmpty)] /\ thr (pring s3) t = Idle /\ forall u, pheld s3 u = pheld s u) /\
    (Z.of_nat (length (flat_map (pheld s) ths)) < N ->
       exists v, inring (pring s) = v :: inring (pring s4) /\
                 log (pring s4) = log (pring s) ++ [(t, RGot v)] /\ thr (pring s4) t = Idle /\
                 pheld s4 t = v :: pheld s t /\ forall u, u <> t -> pheld s4 u = pheld s u).
Proof. exact pool_quiet_alloc_exact. Qed.
Print Assumptions C13_pool_quiet_alloc_exact.

(* the tie to the executable runner of the correspondence check (PoolRun.prun, the Z instance of run_pool_atomic): every state it goes
   through - ring and per-thread `held` lists - satisfies conservation, exclusive ownership and 'never full' *)
Theorem C13_pool_runner_states : forall N, 0 < N -> forall qobs progs sched q' held',
  In (q', held') (prun_states N qobs (pfill st (stepZ N) start init (ids_upto N) 0) (fun _ => []) progs sched) ->
  let s := {| pring := q'; pheld := held' |} in
  (exists ths, NoDup ths /\ (forall t, ~ In t ths -> held' t = [] /\ transit s t = []) /\
     Permutation (ids_upto N) (inring q' ++ flat_map held' ths ++ flat_map (transit s) ths)) /\
  ((forall t u id, In id (held' t) -> In id (held' u) -> t = u) /\ (forall t, NoDup (held' t)) /\
   (forall t id, In id (held' t) -> 0 <= id < N /\ ~ In id (inring q') /\ forall u, ~ In id (transit s u))) /\
  ((forall t v sl, thr q' t <> P2 v sl) /\ (forall t v, ~ In (t, RFull v) (log q')) /\ etail q' - head q' <= N).
Proof. exact prun_states_conserved_exclusive_never_full. Qed.
Print Assumptions C13_pool_runner_states.

(* non-vacuity: a reachable state (N = 4) with something held, something in transit and something free *)
Example C13_pool_nonvacuous := pex_three_collections.

(* ---- the same for the FULL-SYNC free list (AllocatorFullSyncArray; theories/Alloc/PoolConserveFS.v): in transit = a dealloc that has not
   yet put its id back under the flag (FPL v) or an alloc that took an id out under the flag and has not yet returned (FCU (Some id)) ---- *)
From RM Require Import ZcConserveFS PoolConserveFS.

Theorem C13_fullsync_pool_slots_conserved : forall N, 0 < N -> forall evs,
  let s := fpool_run N evs in
  exists ths, NoDup ths /\ (forall t, ~ In t ths -> fheld s t = [] /\ ftransit s t = []) /\
    Permutation (ids_upto N) (finring (fring s) ++ flat_map (fheld s) ths ++ flat_map (ftransit s) ths).
Proof. exact fpool_slots_conserved. Qed.
Print Assumptions C13_fullsync_pool_slots_conserved.

Theorem C13_fullsync_pool_exclusive_ownership : forall N, 0 < N -> forall evs,
  let s := fpool_run N evs in
  (forall t u id, In id (fheld s t) -> In id (fheld s u) -> t = u) /\
  (forall t, NoDup (fheld s t)) /\
  (forall t id, In id (fheld s t) -> 0 <= id < N /\ ~ In id (finring (fring s)) /\ forall u, ~ In id (ftransit s u)) /\
  (forall t u id, In id (ftransit s t) -> In id (ftransit s u) -> t = u).
Proof. exact fpool_exclusive_ownership. Qed.
Print Assumptions C13_fullsync_pool_exclusive_ownership.

(* on the full-sync list EXHAUSTION IS EXACT with no quiet hypothesis: at the decisive step under the flag an allocation answers 'empty'
   iff the free list is empty iff all N slot ids are held or in transit; otherwise it takes the oldest free slot *)
Theorem C13_fullsync_pool_exhaustion_exact : forall N, 0 < N -> forall evs t,
  let s := fpool_run N evs in let x := fring s in
  fthr x t = FCL -> flock x = false ->
  exists ths, NoDup ths /\ (forall u, ~ In u ths -> fheld s u = [] /\ ftransit s u = []) /\
    (fthr (fstepZ N x t) t = FCU None <-> finring x = []) /\
    (fthr (fstepZ N x t) t = FCU None <->
       Permutation (ids_upto N) (flat_map (fheld s) ths ++ flat_map (ftransit s) ths)) /\
    (fthr (fstepZ N x t) t = FCU None <->
       Z.of_nat (length (flat_map (fheld s) ths)) + Z.of_nat (length (flat_map (ftransit s) ths)) = N) /\
    (fthr (fstepZ N x t) t <> FCU None ->
       fthr (fstepZ N x t) t = FCU (Some (nthz (fpublished x) (fhead x))) /\
       exists rest, finring x = nthz (fpublished x) (fhead x) :: rest).
Proof. exact fpool_exhaustion_exact. Qed.
Print Assumptions C13_fullsync_pool_exhaustion_exact.

Theorem C13_fullsync_pool_dealloc_never_meets_full : forall N, 0 < N -> forall evs,
  let s := fpool_run N evs in let x := fring s in
  (forall t v, fthr x t <> FPU v None) /\
  (forall t v, ~ In (t, RFull v) (flog x)) /\
  (forall t v, In v (fheld s t) \/ In v (ftransit s t) -> ftail x - fhead x < N /\ ~ In v (finring x)) /\
  (forall t v, fthr x t = FPL v -> flock x = false ->
     fthr (fstepZ N x t) t = FPU v (Some (ftail x - fhead x + 1))) /\
  (forall t v r, fthr x t = FPU v r -> exists len, r = Some len /\ flog (fstepZ N x t) = flog x ++ [(t, ROk v len)]).
Proof. exact fpool_dealloc_never_meets_full. Qed.
Print Assumptions C13_fullsync_pool_dealloc_never_meets_full.

(* the tie to the executable runner (PoolRun.prun, the Z instance of run_pool_fullsync) *)
Theorem C13_fullsync_pool_runner_states : forall N, 0 < N -> forall qobs progs sched q' held',
  In (q', held') (fprun_states N qobs (pfill fsst (fstepZ N) fstart finit (ids_upto N) 0) (fun _ => []) progs sched) ->
  let s := {| fring := q'; fheld := held' |} in
  (exists ths, NoDup ths /\ (forall t, ~ In t ths -> held' t = [] /\ ftransit s t = []) /\
     Permutation (ids_upto N) (finring q' ++ flat_map held' ths ++ flat_map (ftransit s) ths)) /\
  ((forall t u id, In id (held' t) -> In id (held' u) -> t = u) /\ (forall t, NoDup (held' t)) /\
   (forall t id, In id (held' t) -> 0 <= id < N /\ ~ In id (finring q') /\ forall u, ~ In id (ftransit s u)) /\
   (forall t u id, In id (ftransit s t) -> In id (ftransit s u) -> t = u)) /\
  ((forall t v, fthr q' t <> FPU v None) /\ (forall t v, ~ In (t, RFull v) (flog q')) /\
   (forall t v, In v (held' t) \/ In v (ftransit s t) -> ftail q' - fhead q' < N /\ ~ In v (finring q'))).
Proof. exact fprun_states_conserved_exclusive_never_full. Qed.
Print Assumptions C13_fullsync_pool_runner_states.

Example C13_fullsync_pool_nonvacuous := fpex_three_collections.
