(* C09 - Log channel: full ordered replay; old/new subscriptions partition the history. *)
From RM Require Import Util Log.

(* One total order, the same for every listener: in every reachable state (every schedule of publishers, subscription calls
   and listeners), every value handed to listener i at position p is the p-th entry of THE log (the values in the order they
   became visible), p is inside the listener's entitlement [sfrom, ...) - and below the frozen tail for a fixed ("old
   events") subscriber. *)
Theorem C09_one_total_order :
  forall evs t i p v,
    let s := fold_left lexec evs linit in
    In (t, LGot i p v) (llog s) ->
    0 <= p < ctail s /\ v = nthz (logv s) p /\ sfrom (subs s i) <= p /\ (sk (subs s i) = SFix -> p < sfx (subs s i)).
Proof.
  intros evs t i p v s Hin. destruct (l_got _ (linv_reachable evs) t i p v Hin) as (H1 & H2 & H3 & H4 & _). auto.
Qed.
Print Assumptions C09_one_total_order.

(* the old/new split partitions the history at ONE point: a fixed subscriber with frozen tail k and a dynamic one entitled
   from the same k never yield the same position - everything the old stream yields lies before everything the new one does *)
Theorem C09_split_partitions :
  forall evs i j t u p q v w,
    let s := fold_left lexec evs linit in
    sk (subs s i) = SFix -> sfx (subs s i) = sfrom (subs s j) ->
    In (t, LGot i p v) (llog s) -> In (u, LGot j q w) (llog s) -> p < q.
Proof.
  intros evs i j t u p q v w s Hfix Hk Hi Hj. subst s.
  destruct (l_got _ (linv_reachable evs) t i p v Hi) as (_ & _ & _ & H4 & _).
  destruct (l_got _ (linv_reachable evs) u j q w Hj) as (_ & _ & H3 & _). specialize (H4 Hfix). lia.
Qed.
Print Assumptions C09_split_partitions.

(* references stay valid and unchanged: a visible slot holds its log entry in every later state, and the log only grows *)
Theorem C09_visible_slots_are_the_log :
  forall evs p, let s := fold_left lexec evs linit in 0 <= p < ctail s -> slots s p = nthz (logv s) p.
Proof. intros evs p s. apply (l_vis _ (linv_reachable evs)). Qed.
Print Assumptions C09_visible_slots_are_the_log.

Theorem C09_log_only_grows :
  forall evs1 evs2, exists x, logv (fold_left lexec (evs1 ++ evs2) linit) = logv (fold_left lexec evs1 linit) ++ x.
Proof. exact logv_prefix. Qed.
Print Assumptions C09_log_only_grows.

(* slot exclusivity: two publishers never hold the same position, and a held position is not visible yet *)
Theorem C09_publishers_exclusive :
  forall evs t u p, let s := fold_left lexec evs linit in
    pheld (lthr s t) = Some p -> pheld (lthr s u) = Some p -> t = u.
Proof. intros evs t u p s. apply (l_dist _ (linv_reachable evs)). Qed.
Print Assumptions C09_publishers_exclusive.

(* gap-free delivery (Chan/LogGapFree.v): with every subscriber consumed by one thread (its listener task), any number of publishers,
   subscribers and late subscriptions, every interleaving - the positions subscriber i has yielded so far are exactly the n consecutive
   positions sfrom, sfrom+1, ... from the first one it is entitled to: nothing skipped, nothing repeated, in order.  With
   C09_one_total_order (the value at a position is the log's, the same for every listener) this is 'the entire history, each event
   exactly once, in one total order'. *)
From RM Require Import LogGapFree.
Theorem C09_gap_free_delivery :
  forall own evs i, Forall (wf_lev own) evs ->
    let s := fold_left lexec evs linit in
    sk (subs s i) <> SNone -> exists n, gots i (llog s) = zseq (sfrom (subs s i)) n.
Proof. exact gap_free. Qed.
Print Assumptions C09_gap_free_delivery.

(* non-vacuity of the hypothesis and of the conclusion: two publishers, a joined subscriber consumed by thread 2: it yields positions 0, 1, 2 *)
Example C09_gap_free_nonvacuous :
  let evs := [LStart 2 (LSubJoined 0); LStep 2; LStart 0 (LPub 7)] ++ repeat (LStep 0) 3 ++ [LStart 1 (LPub 8)] ++ repeat (LStep 1) 3 ++
             [LStart 0 (LPub 9)] ++ repeat (LStep 0) 3 ++
             [LStart 2 (LCons 0)] ++ repeat (LStep 2) 3 ++ [LStart 2 (LCons 0)] ++ repeat (LStep 2) 3 ++ [LStart 2 (LCons 0)] ++ repeat (LStep 2) 3 in
  Forall (wf_lev (fun _ => 2%nat)) evs /\ gots 0 (llog (fold_left lexec evs linit)) = [0; 1; 2] /\ gots 0 (llog (fold_left lexec evs linit)) = zseq 0 3.
Proof. split; [cbn [app repeat]; repeat (apply Forall_cons; [cbn; auto|]); apply Forall_nil|vm_compute; split; reflexivity]. Qed.

(* non-vacuity: a subscription made while a publisher holds an unpublished position; old stream gets [0,k), new one [k,..) *)
Example C09_nonvacuous :
  let progs := [[LPub 10; LPub 11]; [LPub 20]; [LSubSplit 0 1; LCons 0; LCons 0; LCons 1; LCons 1; LCons 1]] in
  let s := fst (lrun linit (fun t => nth t progs []) (repeat 0 3 ++ [1;1] ++ repeat 2 3 ++ repeat 0 3 ++ repeat 1 3 ++ repeat 0 2 ++ repeat 2 30)%nat) in
  map snd (filter (fun e => match snd e with LGot _ _ _ => true | _ => false end) (llog s))
  = [LGot 0%nat 0 10; LGot 1%nat 1 20; LGot 1%nat 2 11].
Proof. vm_compute. reflexivity. Qed.

(* ---- Chan/LogOrder.v: the remaining clauses ---- *)
From RM Require Import LogOrder.

(* one total order, consistent with every producer's send order: the publications that were answered are, in answer order, exactly the
   log entries with their positions 0, 1, 2, ... (a producer's sends answer one after the other, so its events sit in the log in its send
   order) *)
Theorem C09_answered_publications_are_the_log :
  forall evs, let s := fold_left lexec evs linit in pubs (llog s) = numbered (logv s).
Proof. exact pubs_are_the_log. Qed.
Print Assumptions C09_answered_publications_are_the_log.

Theorem C09_publication_order :
  forall evs a b v p w q, pubs (llog (fold_left lexec evs linit)) = a ++ (v, p) :: b -> In (w, q) b -> p < q.
Proof. exact publication_order. Qed.
Print Assumptions C09_publication_order.

(* nothing missing: a subscriber for new events (or old-and-new, joined) is told "nothing there" only when it has yielded every position
   visible at the moment it looks ... *)
Theorem C09_new_stream_empty_answer_is_exact :
  forall own evs t i h, Forall (wf_lev own) evs ->
    let s := fold_left lexec evs linit in
    lthr s t = LC1 i h -> ctail s <= h ->
    h = ctail s /\ gots i (llog s) = zseq (sfrom (subs s i)) (Z.to_nat (ctail s - sfrom (subs s i))).
Proof. exact dyn_empty_answer_is_exact. Qed.
Print Assumptions C09_new_stream_empty_answer_is_exact.

(* ... and the "old events" stream of a split is told so - and ends - exactly when it has yielded every position below the split point;
   it never yields one at or above it *)
Theorem C09_old_stream_ends_exactly_at_the_split :
  forall own evs t i h, Forall (wf_lev own) evs ->
    let s := fold_left lexec evs linit in
    lthr s t = LC2 i h -> sk (subs s i) = SFix ->
    h = sfx (subs s i) /\ gots i (llog s) = zseq (sfrom (subs s i)) (Z.to_nat (sfx (subs s i) - sfrom (subs s i))).
Proof. exact fix_empty_answer_is_exact. Qed.
Print Assumptions C09_old_stream_ends_exactly_at_the_split.

Theorem C09_old_stream_never_beyond_the_split :
  forall own evs i, Forall (wf_lev own) evs ->
    let s := fold_left lexec evs linit in
    sk (subs s i) = SFix -> exists n, gots i (llog s) = zseq (sfrom (subs s i)) n /\ Z.of_nat n <= sfx (subs s i) - sfrom (subs s i).
Proof. exact fix_never_beyond. Qed.
Print Assumptions C09_old_stream_never_beyond_the_split.

(* non-vacuity of the two "exact empty answer" theorems: a joined subscriber that yielded position 0 and looks again at an unchanged log;
   an old / new split at k = 1 whose old stream yielded position 0 and asks again *)
Example C09_exact_empty_nonvacuous :
  let own := fun _ : nat => 2%nat in
  let e1 := [LStart 2 (LSubJoined 0); LStep 2; LStart 0 (LPub 7)] ++ repeat (LStep 0) 3 ++ [LStart 2 (LCons 0)] ++ repeat (LStep 2) 3 ++
            [LStart 2 (LCons 0); LStep 2] in
  let e2 := [LStart 0 (LPub 7)] ++ repeat (LStep 0) 3 ++ [LStart 2 (LSubSplit 0 1)] ++ repeat (LStep 2) 3 ++
            [LStart 2 (LCons 0)] ++ repeat (LStep 2) 2 ++ [LStart 2 (LCons 0); LStep 2] in
  let s1 := fold_left lexec e1 linit in let s2 := fold_left lexec e2 linit in
  (Forall (wf_lev own) e1 /\ lthr s1 2%nat = LC1 0 1 /\ ctail s1 = 1 /\ gots 0 (llog s1) = [0]) /\
  (Forall (wf_lev own) e2 /\ lthr s2 2%nat = LC2 0 1 /\ sk (subs s2 0%nat) = SFix /\ sfx (subs s2 0%nat) = 1 /\ gots 0 (llog s2) = [0]).
Proof.
  split; (split; [cbn [app repeat]; repeat (apply Forall_cons; [cbn; auto|]); apply Forall_nil|vm_compute; repeat split; reflexivity]).
Qed.
