(* C08 - Reserved slots: sent ones deliver what was written, cancelled vanish, none leak.
   Model: Ring/Reserve.v (reserve / send-reserved / cancel of the lock-free ring, layered on the ring machine: an outstanding
   reservation is a virtual ring thread parked at P3 / P4, so the ring invariant covers reserved slots). *)
From RM Require Import Util RingModel RingInv RingProps Reserve ReserveProps.

(* the index-guessing publication CAS can only ever succeed on the reservation's own slot id *)
Theorem C08_send_guess_hits_own_slot :
  forall N, 0 < N -> forall x t v slot len g,
    Inv N x -> thr x t = P4 v slot len -> tail x = g -> g mod N = slot mod N -> g = slot.
Proof. exact send_guess_hits_own_slot. Qed.
Print Assumptions C08_send_guess_hits_own_slot.

(* ... and the index-guessing cancellation CAS too, as long as no more than BUFFER_SIZE ids are reserved (nobody else in the
   middle of a reservation attempt - the single-producer use the property quantifies over) *)
Theorem C08_cancel_guess_hits_own_slot :
  forall N, 0 < N -> forall x t v slot g,
    Inv N x -> slot_of (thr x t) = Some (v, slot) -> etail x = g + 1 -> g mod N = slot mod N -> etail x <= head x + N -> g = slot.
Proof. exact cancel_guess_hits_own_slot. Qed.
Print Assumptions C08_cancel_guess_hits_own_slot.

(* ---- the whole reserve layer: single producer (thread 0) issuing reserve / send-reserved / cancel in any order and any number, any
   number of consumer threads, EVERY interleaving (`wf_ev`: reservation operations come from thread 0, the other threads consume
   or ask the length; plain sends by the producer are outside this theorem - they are in the lock-step suites) ---- *)
From RM Require Import ReserveInv.

(* the two index-guessing CAS loops never act on a slot that is not the reservation's own *)
Theorem C08_wrong_guess_unreachable :
  forall N, 0 < N -> forall evs, Forall wf_ev evs -> bad (fold_left (reexec N idz idz) evs (reinit_at 0)) = false.
Proof. exact reserve_never_bad. Qed.
Print Assumptions C08_wrong_guess_unreachable.

(* sent reservations are delivered exactly once, in the order their sends succeeded, with the content written into the slot;
   cancelled ones (never accepted) are never delivered *)
Theorem C08_sent_delivered_exactly_once_cancelled_never :
  forall N, 0 < N -> forall evs, Forall wf_ev evs ->
    let x := ring (fold_left (reexec N idz idz) evs (reinit_at 0)) in
    yielded_of (log x) = firstn (length (yielded_of (log x))) (accepted_of (log x)).
Proof. exact reserve_exactly_once. Qed.
Print Assumptions C08_sent_delivered_exactly_once_cancelled_never.

(* none leak: once every reservation was sent or cancelled and nobody is inside an operation, nothing is reserved any more *)
Theorem C08_no_leak :
  forall N, 0 < N -> forall evs, Forall wf_ev evs ->
    let s := fold_left (reexec N idz idz) evs (reinit_at 0) in
    (forall u, thr (ring s) u = Idle) -> etail (ring s) = tail (ring s) /\ dhead (ring s) = head (ring s).
Proof. exact reserve_no_leak. Qed.
Print Assumptions C08_no_leak.

(* non-vacuity: reserve 3, cancel the last, send the first two, consume: [100; 101] delivered, 102 never *)
Example C08_nonvacuous :
  let progs := [[RoReserve 0 100; RoReserve 1 101; RoReserve 2 102; RoCancel 2; RoSend 0; RoSend 1]; [RoRing OpCons; RoRing OpCons; RoRing OpCons]] in
  let s := fst (rerun 4 idz idz (reinit_at 0) (fun t => nth t progs []) (repeat 0%nat 30 ++ repeat 1%nat 20)) in
  (yielded_of (log (ring s)), rejected_of (log (ring s)), bad s, etail (ring s) - tail (ring s)) = ([100; 101], [102], false, 0).
Proof. vm_compute. reflexivity. Qed.

(* ---- the channel wrappers: reserve_slot / try_send_reserved / try_cancel_slot_reserve of the movable atomic Uni channel
   (Chan/ChanX.v, the machine in lock-step with the code), for EVERY interleaving of: one thread reserving / sending reserved /
   cancelling in any order, any number of threads polling, driving streams, asking the length or cancelling all streams - and for
   any wake decisions: the reserve machine inside the channel only moves by well-formed reserve-machine events (ChanXProps.v),
   so the three theorems above hold at the channel level ---- *)
From RM Require Import Chan ChanProps ChanX ChanXProps.

Theorem C08_channel_wrong_guess_unreachable :
  forall N, 0 < N -> forall M k ws wr wa xevs, Forall xwf_ev xevs ->
    bad (qx (fold_left (xexec N idz idz M k ws wr wa) xevs (xinit k (reinit_at 0)))) = false.
Proof. exact chan_reserve_never_bad. Qed.
Print Assumptions C08_channel_wrong_guess_unreachable.

Theorem C08_channel_sent_delivered_exactly_once_cancelled_never :
  forall N, 0 < N -> forall M k ws wr wa xevs, Forall xwf_ev xevs ->
    let x := ring (qx (fold_left (xexec N idz idz M k ws wr wa) xevs (xinit k (reinit_at 0)))) in
    yielded_of (log x) = firstn (length (yielded_of (log x))) (accepted_of (log x)).
Proof. exact chan_reserve_exactly_once. Qed.
Print Assumptions C08_channel_sent_delivered_exactly_once_cancelled_never.

Theorem C08_channel_no_leak :
  forall N, 0 < N -> forall M k ws wr wa xevs, Forall xwf_ev xevs ->
    let s := qx (fold_left (xexec N idz idz M k ws wr wa) xevs (xinit k (reinit_at 0))) in
    (forall u, thr (ring s) u = Idle) -> etail (ring s) = tail (ring s) /\ dhead (ring s) = head (ring s).
Proof. exact chan_reserve_no_leak. Qed.
Print Assumptions C08_channel_no_leak.

(* non-vacuity: a well-formed channel history - the stream parks, thread 0 reserves 3, cancels the last, sends the first two;
   the stream is woken and yields exactly [100; 101] *)
Example C08_channel_nonvacuous :
  let progs := [[XoReserve 0 100; XoReserve 1 101; XoReserve 2 102; XoCancelRes 2; XoSendRes 0; XoSendRes 1]; [XoBase (CoDrive 0)]] in
  let s := fst (xrun 4 idz idz 1 1 (wake_rule_atomic 1) (wake_res_code 1) (wake_async_code 1) (xinit 1 (reinit_at 0)) (xprogs_of progs)
                     (repeat 1%nat 14 ++ repeat 0%nat 40 ++ repeat 1%nat 40)) in
  (cyields (clog _ (xb s)), map snd (xlog s), bad (qx s)) =
  ([100; 101], [XSlot 0; XSlot 1; XSlot 2; XCancelled 2; XSent 0; XSent 1], false).
Proof. vm_compute. reflexivity. Qed.

(* ---- the reserve API of the zero-copy Uni channels (Chan/ChanZX.v, in lock-step with uni/channels/zero_copy/{atomic,full_sync}.rs):
   reserve = an allocation from the pool, send-reserved = the publication of the slot id, cancel = the deallocation.  For every
   interleaving of reservations, sends, cancels, plain sends, polls, drives, length queries and cancellations by any number of threads,
   the ring of slot ids and the pool's free list of the zero-copy atomic channel remain runs of the ring machine: a reserved-and-sent slot
   is delivered exactly once, in the order the ids entered the ring; a cancelled one never enters it; the ring invariant (capacity,
   exclusive slot access) holds of both ---- *)
From RM Require Import ZeroCopy ZcUni ChanZ ChanZProps ChanZInst ChanZX ChanZXProps ChanZXInst.
Theorem C08_zero_copy_atomic_reserved_ids_exactly_once_in_order :
  forall N, 0 < N -> forall M k ws wr evs,
    let l := log (ub st (zq st (zx_run N M k ws wr evs))) in yielded_of l = firstn (length (yielded_of l)) (accepted_of l).
Proof. exact zx_atomic_ids_exactly_once_in_order. Qed.
Print Assumptions C08_zero_copy_atomic_reserved_ids_exactly_once_in_order.

Theorem C08_zero_copy_atomic_components_invariant :
  forall N, 0 < N -> forall M k ws wr evs,
    Inv N (ub st (zq st (zx_run N M k ws wr evs))) /\ Inv N (ua st (zq st (zx_run N M k ws wr evs))).
Proof. exact zx_atomic_components_invariant. Qed.
Print Assumptions C08_zero_copy_atomic_components_invariant.

(* ---- the glue between the channel's streams and the ring (Chan/ChanXGlue.v): in EVERY run of the movable atomic channel machine with all
   its entry points (plain sends, send_with_async, reservations from any thread, polls, drives, cancels - the only hypothesis: the acting
   threads are real threads, not the model's virtual reservation threads), what the STREAMS yielded is exactly what the ring handed out,
   in the same order ... ---- *)
From RM Require Import ChanXGlue.
Theorem C08_streams_yield_what_the_ring_hands_out :
  forall N M k ws wr wa xevs, Forall xreal_ev xevs ->
    let s := fold_left (xexec N idz idz M k ws wr wa) xevs (xinit k (reinit_at 0)) in
    cyields (clog _ (xb s)) = yielded_of (log (ring (qx s))).
Proof. exact xg_yields. Qed.
Print Assumptions C08_streams_yield_what_the_ring_hands_out.

(* ... hence, under the single-producer discipline of the reserve theorems: what the streams yielded is, in order, a prefix of what the ring
   accepted - reserved-and-sent events exactly once with the written content, cancelled ones never - at the level of the channel's answers *)
Theorem C08_streams_get_sent_reservations_exactly_once :
  forall N M k ws wr wa xevs, 0 < N -> Forall xwf_ev xevs ->
    let s := fold_left (xexec N idz idz M k ws wr wa) xevs (xinit k (reinit_at 0)) in
    cyields (clog _ (xb s)) = firstn (length (cyields (clog _ (xb s)))) (accepted_of (log (ring (qx s)))).
Proof. exact chan_reserve_streams_exactly_once. Qed.
Print Assumptions C08_streams_get_sent_reservations_exactly_once.

(* ---- slot conservation of the zero-copy atomic channel WITH its reserve API (Chan/ChanZXConserve.v).  Discipline on the reservation NAMES
   (`zx_wf`, checkable along the run): a name is reserved only while it is free, and nobody starts a send / cancel of a name that somebody is
   sending or cancelling.  Then, in every state of every run, each slot id is in exactly one of FIVE places: free list, id ring, a
   consumer's hands, in transit (base machine or a send-reserved / cancel in progress), or RESERVED under one name ---- *)
From Coq Require Import Permutation.
From RM Require Import PoolRun ZcConserve ChanZXConserve.
Theorem C08_zero_copy_atomic_reserved_slots_conserved :
  forall N, 0 < N -> forall M k ws wr evs, zx_wf N M k ws wr evs ->
    let s := zx_run N M k ws wr evs in let x := zq st s in
    exists ths ks, NoDup ths /\ NoDup ks /\
      (forall t, ~ In t ths -> heldl x t = [] /\ transl x t = [] /\ ltransl s t = []) /\
      (forall j, In j ks <-> (exists id, zres _ s j = Some id) /\ at_rest (zthr _ s) j) /\
      Permutation (ids_upto N) (inring (ua _ x) ++ inring (ub _ x) ++ flat_map (heldl x) ths ++ flat_map (transl x) ths
                                ++ flat_map (ltransl s) ths ++ flat_map (resl (zres _ s)) ks).
Proof. exact zx_slots_conserved. Qed.
Print Assumptions C08_zero_copy_atomic_reserved_slots_conserved.

(* no leak: with nothing in progress and r reservations outstanding, free slots + pending events = N - r (= N once every reservation was
   sent or cancelled); two names never hold the same slot; the publication of a reserved slot never finds the id ring full *)
Theorem C08_zero_copy_atomic_reservations_leak_nothing :
  forall N, 0 < N -> forall M k ws wr evs, zx_wf N M k ws wr evs ->
    let s := zx_run N M k ws wr evs in let x := zq st s in
    (forall t, ZC.cthr _ (zb _ s) t = ZC.XIdle) -> (forall t, zthr _ s t = ZN) ->
    (forall t, uheld _ x t = None) /\
    (exists ks, NoDup ks /\ (forall j, In j ks <-> exists id, zres _ s j = Some id) /\
       (tail (ua _ x) - head (ua _ x)) + (tail (ub _ x) - head (ub _ x)) = N - Z.of_nat (length ks) /\
       Permutation (ids_upto N) (inring (ua _ x) ++ inring (ub _ x) ++ flat_map (resl (zres _ s)) ks)) /\
    ((forall j, zres _ s j = None) -> (tail (ua _ x) - head (ua _ x)) + (tail (ub _ x) - head (ub _ x)) = N /\
                                      Permutation (ids_upto N) (inring (ua _ x) ++ inring (ub _ x))).
Proof. exact zx_no_leak. Qed.
Print Assumptions C08_zero_copy_atomic_reservations_leak_nothing.

(* ---- the same for the zero-copy FULL-SYNC channel with its reserve API (Chan/ChanZXConserveFS.v): the rings move their counters under a
   flag one step before an operation returns, so 'in transit' is read off the full-sync pcs (an id a send-reserved has already put into the
   id ring, its table entry not yet cleared, counts as IN THE RING) ---- *)
From RM Require Import FullSync ZcConserveFS ChanZXConserveFS.
Theorem C08_zero_copy_full_sync_reserved_slots_conserved :
  forall N, 0 < N -> forall M k ws wr evs, zxf_wf N M k ws wr evs ->
    let s := zxf_run N M k ws wr evs in let x := zq fsst s in
    exists ths ks, NoDup ths /\ NoDup ks /\
      (forall t, ~ In t ths -> fheldl x t = [] /\ ftransl x t = [] /\ ltranslF s t = []) /\
      (forall j, In j ks <-> (exists id, zres _ s j = Some id) /\ at_rest (zthr _ s) j) /\
      Permutation (ids_upto N)
        (finring (ua _ x) ++ finring (ub _ x) ++ flat_map (fheldl x) ths ++ flat_map (ftransl x) ths ++
         flat_map (ltranslF s) ths ++ flat_map (resl (zres _ s)) ks).
Proof. exact zxfs_slots_conserved. Qed.
Print Assumptions C08_zero_copy_full_sync_reserved_slots_conserved.

Theorem C08_zero_copy_full_sync_reservations_leak_nothing :
  forall N, 0 < N -> forall M k ws wr evs, zxf_wf N M k ws wr evs ->
    let s := zxf_run N M k ws wr evs in let x := zq fsst s in
    (forall t, ZC.cthr _ (zb _ s) t = ZC.XIdle) -> (forall t, zthr _ s t = ZN) ->
    (forall t, uheld _ x t = None) /\
    (exists ks, NoDup ks /\ (forall j, In j ks <-> exists id, zres _ s j = Some id) /\
       (ftail (ua _ x) - fhead (ua _ x)) + (ftail (ub _ x) - fhead (ub _ x)) = N - Z.of_nat (length ks) /\
       Permutation (ids_upto N) (finring (ua _ x) ++ finring (ub _ x) ++ flat_map (resl (zres _ s)) ks)) /\
    ((forall j, zres _ s j = None) ->
       (ftail (ua _ x) - fhead (ua _ x)) + (ftail (ub _ x) - fhead (ub _ x)) = N /\
       Permutation (ids_upto N) (finring (ua _ x) ++ finring (ub _ x))).
Proof. exact zxfs_no_leak. Qed.
Print Assumptions C08_zero_copy_full_sync_reservations_leak_nothing.

(* two names never hold the same slot; a reserved slot is a slot id that no consumer holds and that is not in transit in the base machine *)
Theorem C08_zero_copy_full_sync_entries_exclusive :
  forall N, 0 < N -> forall M k ws wr evs, zxf_wf N M k ws wr evs ->
    let s := zxf_run N M k ws wr evs in let x := zq fsst s in
    (forall j j' id, zres _ s j = Some id -> zres _ s j' = Some id -> j = j') /\
    (forall j id, zres _ s j = Some id ->
       0 <= id < N /\ (forall t, uheld _ x t <> Some id) /\ (forall t, ~ In id (ftransl x t))).
Proof. exact zxfs_entries_exclusive. Qed.
Print Assumptions C08_zero_copy_full_sync_entries_exclusive.

(* the publication of a reserved slot never finds the id ring full, and never answers 'not sent' *)
Theorem C08_zero_copy_full_sync_sendres_never_full :
  forall N, 0 < N -> forall M k ws wr evs, zxf_wf N M k ws wr evs ->
    let s := zxf_run N M k ws wr evs in let x := zq fsst s in
    (forall t j, ~ In (t, XNotSent j) (zlog _ s)) /\
    (forall t j id, zthr _ s t = ZSRes j id ->
       zres _ s j = Some id /\
       (   (fthr (ub _ x) t = FPL id /\ ftail (ub _ x) - fhead (ub _ x) < N /\ ~ In id (finring (ub _ x)))
        \/ (exists len, fthr (ub _ x) t = FPU id (Some len)))).
Proof. exact zxfs_sendres_never_full. Qed.
Print Assumptions C08_zero_copy_full_sync_sendres_never_full.
