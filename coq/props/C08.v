(* C08 - Reserved slots: sent ones deliver what was written, cancelled vanish, none leak.
   Model: Ring/Reserve.v (reserve / send-reserved / cancel of the lock-free ring, layered on the ring machine: an outstanding
   reservation is a virtual ring thread parked at P3 / P4, so the ring invariant covers reserved slots). *)
From RM Require Import Util RingModel RingInv RingProps Reserve ReserveProps.

(* the index-guessing publication CAS can only ever succeed on the reservation's own slot id *)
Theorem C08_send_guess_hits_own_slot :
  forall N, 0 < N -> forall x t v slot len g,
    Inv N x -> thr x t = P4 v slot len -> tail x = g -> g mod N = slot mod N -> g = slot.
Proof. exact send_guess_hits_own_slot. Qed.
Print Assumptions C08_send_guess_hits_own_slot.

(* ... and the index-guessing cancellation CAS too, as long as no more than BUFFER_SIZE ids are reserved (nobody else in the
   middle of a reservation attempt - the single-producer use the property quantifies over) *)
Theorem C08_cancel_guess_hits_own_slot :
  forall N, 0 < N -> forall x t v slot g,
    Inv N x -> slot_of (thr x t) = Some (v, slot) -> etail x = g + 1 -> g mod N = slot mod N -> etail x <= head x + N -> g = slot.
Proof. exact cancel_guess_hits_own_slot. Qed.
Print Assumptions C08_cancel_guess_hits_own_slot.
