(* C04 on the Multi channel arc / full-sync (Chan/MultiFS.v, in lock-step with multi::channels::arc::full_sync; proof in Chan/MultiWakeFS.v).
   This file holds statements only. *)
From RM Require Import RingModel FullSync Chan Multi MultiFS MultiFSProps MultiWakeFS.
Import MFS.

(* Steady regime (listeners 0..k-1 were created before the run - the state the correspondence runner starts from - and none is created or
   removed during it): for every interleaving, any number of producers (threads >= k: send, count), any BUFFER_SIZE and MAX_STREAMS, every
   listener i < k driven by its own task, there is no state in which every producer has returned, listener i's ring holds an event, the
   listener was not cancelled, and its task is parked with no notification on its way. *)
Theorem C04_multi_arc_full_sync_no_lost_wakeup :
  forall (N : Z) (M k : nat) (evs : list MultiFSProps.mev),
    Forall (MultiWakeFS.wf_ev k) evs -> forall i, (i < k)%nat ->
    ~ MultiWakeFS.lost k (fold_left (MultiFSProps.mexec N M) evs (MultiWakeFS.created N M k)) i.
Proof. exact mfs_no_lost_wakeup. Qed.
Print Assumptions C04_multi_arc_full_sync_no_lost_wakeup.

(* non-vacuity: BUFFER 4, MAX_STREAMS 3, listeners 0 and 1; listener 0's task parks on its empty ring; thread 2 sends 7 into both rings;
   every conjunct of `lost` holds of that state except the last: the parked task HAS been notified; three steps later it yields 7 *)
Example C04M_nonvacuous :
  let steps := fun (t n : nat) => repeat (MultiFSProps.MStep t) n in
  let evs := (MultiFSProps.MStart 0 (MoDrive 0) :: steps 0%nat 14%nat) ++ (MultiFSProps.MStart 2 (MoSend 7) :: steps 2%nat 20%nat) in
  let s := fold_left (MultiFSProps.mexec 4 3) evs (MultiWakeFS.created 4 3 2) in
  Forall (MultiWakeFS.wf_ev 2) evs /\
  mthr s 2%nat = MIdle /\ ftail (rings s 0%nat) - fhead (rings s 0%nat) = 1 /\ keep (msm s) 0%nat = true /\ mthr s 0%nat = MParked 0 /\
  notified (msm s) 0%nat = true /\
  mlog (fold_left (MultiFSProps.mexec 4 3) (steps 0%nat 3%nat) s) =
    [(0%nat, MCreated 0); (0%nat, MCreated 1); (0%nat, MPending 0); (0%nat, MPending 0); (2%nat, MSendOk 7); (0%nat, MYield 0 7)].
Proof.
  cbv zeta. split; [cbn [repeat app]; repeat (apply Forall_cons; [cbn; auto; try lia|]); apply Forall_nil|vm_compute; repeat split].
Qed.
