(* C04 on the Multi channel arc / full-sync (Chan/MultiFS.v, in lock-step with multi::channels::arc::full_sync; proof in Chan/MultiWakeFS.v).
   This file holds statements only. *)
From RM Require Import RingModel FullSync Chan Multi MultiFS MultiFSProps MultiWakeFS.
Import MFS.

(* Steady regime (listeners 0..k-1 were created before the run - the state the correspondence runner starts from - and none is created or
   removed during it): for every interleaving, any number of producers (threads >= k: send, count), any BUFFER_SIZE and MAX_STREAMS, every
   listener i < k driven by its own task, there is no state in which every producer has returned, listener i's ring holds an event, the
   listener was not cancelled, and its task is parked with no notification on its way. *)
Theorem C04_multi_arc_full_sync_no_lost_wakeup :
  forall (N : Z) (M k : nat) (evs : list MultiFSProps.mev),
    Forall (MultiWakeFS.wf_ev k) evs -> forall i, (i < k)%nat ->
    ~ MultiWakeFS.lost k (fold_left (MultiFSProps.mexec N M) evs (MultiWakeFS.created N M k)) i.
Proof. exact mfs_no_lost_wakeup. Qed.
Print Assumptions C04_multi_arc_full_sync_no_lost_wakeup.

(* non-vacuity: BUFFER 4, MAX_STREAMS 3, listeners 0 and 1; listener 0's task parks on its empty ring; thread 2 sends 7 into both rings;
   every conjunct of `lost` holds of that state except the last: the parked task HAS been notified; three steps later it yields 7 *)
Example C04M_nonvacuous :
  let steps := fun (t n : nat) => repeat (MultiFSProps.MStep t) n in
  let evs := (MultiFSProps.MStart 0 (MoDrive 0) :: steps 0%nat 14%nat) ++ (MultiFSProps.MStart 2 (MoSend 7) :: steps 2%nat 20%nat) in
  let s := fold_left (MultiFSProps.mexec 4 3) evs (MultiWakeFS.created 4 3 2) in
  Forall (MultiWakeFS.wf_ev 2) evs /\
  mthr s 2%nat = MIdle /\ ftail (rings s 0%nat) - fhead (rings s 0%nat) = 1 /\ keep (msm s) 0%nat = true /\ mthr s 0%nat = MParked 0 /\
  notified (msm s) 0%nat = true /\
  mlog (fold_left (MultiFSProps.mexec 4 3) (steps 0%nat 3%nat) s) =
    [(0%nat, MCreated 0); (0%nat, MCreated 1); (0%nat, MPending 0); (0%nat, MPending 0); (2%nat, MSendOk 7); (0%nat, MYield 0 7)].
Proof.
  cbv zeta. split; [cbn [repeat app]; repeat (apply Forall_cons; [cbn; auto; try lia|]); apply Forall_nil|vm_compute; repeat split].
Qed.

(* The Multi channel arc / ATOMIC (Chan/Multi.v, in lock-step with multi::channels::arc::atomic; one LOCK-FREE ring per listener) shares the
   finding of the movable atomic Uni channel (F1): the wake decision uses the length sampled at the slot reservation while publications
   are serialised.  Three producers overlap on listener 0's ring; all three sends answer Ok, two events are yielded, the third stays in
   the ring with the listener's task parked and not notified, every producer idle.  Known finding class C04.multi_atomic.overlapping_sends. *)
From RM Require Import RingInv RingProps MultiProps.
Theorem C04_multi_arc_atomic_refuted_overlapping_sends :
  exists progs sched,
    let created1 := Multi.mstep 8 idz idz 1 (Multi.mstart 1 (Multi.minit 1) 0%nat MoCreate) 0%nat in
    let s := fst (Multi.mrun 8 idz idz 1 created1 (fun t => nth t progs []) sched) in
    map snd (Multi.mlog s) = [MCreated 0; MSendOk 3000; MSendOk 2000; MYield 0 3000; MYield 0 2000; MPending 0; MPending 0; MSendOk 1000] /\
    tail (Multi.rings s 0%nat) - head (Multi.rings s 0%nat) = 1 /\
    map (Multi.mthr s) [0; 1; 2; 3]%nat = [MIdle; MIdle; MIdle; MParked 0] /\
    notified (Multi.msm s) 0%nat = false /\ keep (Multi.msm s) 0%nat = true.
Proof.
  exists [[MoSend 1000]; [MoSend 2000]; [MoSend 3000]; [MoDrive 0]].
  exists (repeat 2 17 ++ [3; 3] ++ repeat 1 14 ++ [0; 0; 0] ++ repeat 3 24 ++ concat (repeat [0; 1; 2; 3] 14))%nat.
  vm_compute. repeat split; reflexivity.
Qed.
Print Assumptions C04_multi_arc_atomic_refuted_overlapping_sends.
