(* C10 / C17 on the arc / full-sync Multi channel (Chan/MultiFS.v): the stream bookkeeping theorems of the arc / atomic model, ported
   (Chan/MultiFSBook.v, Chan/ChurnFS.v - same proofs: the streams-manager part of the two machines is the same code).  Statements only. *)
From RM Require Import Util RingModel FullSync Chan Multi MultiFS MultiFSProps.
From RM Require MultiFSBook ChurnFS FanOutFS Churn.

Theorem C10_arc_full_sync_bookkeeping :
  forall N M mevs, Forall (fun e => FanOutFS.mtid e = 0%nat /\ MultiFSBook.atomic_ev e = true) mevs ->
    let s := fold_left (MultiFSProps.mexec N M) mevs (MFS.minit M) in
    NoDup (MFS.vacant s) /\ (forall i, In i (MFS.vacant s) -> (i < M)%nat) /\
    (forall i, MFS.alive s i = true <-> ((i < M)%nat /\ ~ In i (MFS.vacant s))).
Proof. intros N M mevs H s. destruct (MultiFSBook.bookkeeping_sequential N M mevs H) as [H1 H2 H3]. auto. Qed.
Print Assumptions C10_arc_full_sync_bookkeeping.

Theorem C10_arc_full_sync_ids_never_exhausted :
  forall N M mevs, Forall (fun e => FanOutFS.mtid e = 0%nat /\ MultiFSBook.atomic_ev e = true) mevs ->
    let s := fold_left (MultiFSProps.mexec N M) mevs (MFS.minit M) in
    (exists i, (i < M)%nat /\ MFS.alive s i = false) -> MFS.vacant s <> [].
Proof. intros N M mevs H s. apply MultiFSBook.ids_never_exhausted. now apply MultiFSBook.bookkeeping_sequential. Qed.
Print Assumptions C10_arc_full_sync_ids_never_exhausted.

(* C17: for any number of concurrent creators / removers racing with sends, whenever no creation / removal is between its change of the
   vacant queue and the end of its rebuild of used_streams, the array holds exactly the live ids, ascending, then the sentinel *)
Theorem C17_arc_full_sync_live_list_consistent :
  forall N M, (0 < M)%nat -> forall mevs, Forall (fun e => ChurnFS.stepped_ev e = true) mevs ->
    let s := fold_left (MultiFSProps.mexec N M) mevs (MFS.minit M) in
    (forall t, Churn.pending (MFS.mthr s t) = false /\ Churn.writing (MFS.mthr s t) = false) ->
    forall j, (j < M)%nat -> usedarr (MFS.mx s) j = nth j (MFS.used_list M (MFS.vacant s)) MFS.MAXID.
Proof. intros N M HM mevs H s Hq j Hj. exact (ChurnFS.live_list_consistent N M HM mevs H Hq j Hj). Qed.
Print Assumptions C17_arc_full_sync_live_list_consistent.
